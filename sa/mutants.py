"""Self-validation corpus: breaking and benign variants of /repo/eyecite
(DESIGN section 4).  Each variant is an exact-once text replacement (or a
stored patch under /verif/seeded).  `props` lists the property checks that must
(breaking) report it / (benign) stay silent on it."""
from __future__ import annotations

from typing import Any, Dict, List

VARIANTS: List[Dict[str, Any]] = []


def B(id, props, file, old, new, rule=None):
    VARIANTS.append({"id": id, "kind": "breaking", "props": props, "edits": [{"file": file, "old": old, "new": new}], "rule": rule})


def B2(id, props, edits, rule=None):
    VARIANTS.append({"id": id, "kind": "breaking", "props": props,
                     "edits": [{"file": f, "old": o, "new": n} for f, o, n in edits], "rule": rule})


def N(id, props, file, old, new):
    VARIANTS.append({"id": id, "kind": "benign", "props": props, "edits": [{"file": file, "old": old, "new": new}]})


def N2(id, props, edits):
    VARIANTS.append({"id": id, "kind": "benign", "props": props, "edits": [{"file": f, "old": o, "new": n} for f, o, n in edits]})


def P(id, props, patch, rule=None):
    VARIANTS.append({"id": id, "kind": "breaking", "props": props, "patch": patch, "rule": rule})


# ---------------------------------------------------------------- resolve fold
RES_APPEND = "        last_resolution = resolution\n        if resolution:\n            # Record the citation in the appropriate list\n            resolutions[resolution].append(citation)\n"

B("fold-append-twice", ["C06", "C08"], "resolve.py",
  "            resolution = resolve_id_citation(\n                citation, last_resolution, resolutions\n            )\n",
  "            resolution = resolve_id_citation(\n                citation, last_resolution, resolutions\n            )\n            if resolution:\n                resolutions[resolution].append(citation)\n",
  rule="O2")
B("fold-insert-front", ["C06", "C08"], "resolve.py", "            resolutions[resolution].append(citation)\n",
  "            resolutions[resolution].insert(0, citation)\n", rule="O2")
B("fold-return-sorted", ["C06", "C08"], "resolve.py", "    return resolutions\n",
  "    return dict(sorted(resolutions.items(), key=lambda kv: len(kv[1])))\n", rule="O2")
B("fold-lookahead", ["C06", "C08"], "resolve.py", "    for citation in citations:\n        # If the citation is a full citation, try to resolve it\n",
  "    for i, citation in enumerate(citations):\n        # If the citation is a full citation, try to resolve it\n", rule="O1")
B("fold-second-pass", ["C06", "C08"], "resolve.py", "    return resolutions\n",
  "    for citation in citations:\n        if isinstance(citation, SupraCitation) and last_resolution:\n            resolutions[last_resolution].append(citation)\n    return resolutions\n",
  rule="O1")
B("resolver-fabricates-resource", ["C06", "C07", "C08"], "resolve.py",
  "    # Otherwise, nothing left to try\n    else:\n        return None\n",
  "    # Otherwise, nothing left to try\n    else:\n        return Resource(short_citation)\n", rule="O3")
B("resource-len", ["C06"], "models.py", "    def __eq__(self, other):\n        return self.__hash__() == other.__hash__()\n",
  "    def __eq__(self, other):\n        return self.__hash__() == other.__hash__()\n\n    def __len__(self):\n        return 0\n", rule="O6")
B("reference-subclass-of-supra", ["C06"], "models.py", "class ReferenceCitation(CitationBase):\n", "class ReferenceCitation(SupraCitation):\n", rule="O5")
B("unknown-else-keeps-last", ["C06", "C07"], "resolve.py", "        else:\n            resolution = None\n\n        last_resolution = resolution\n",
  "        else:\n            resolution = last_resolution\n\n        last_resolution = resolution\n")
B("rfc-insert-front", ["C08"], "resolve.py", "            resolved_full_cites.append((citation, resolution))\n",
  "            resolved_full_cites.insert(0, (citation, resolution))\n", rule="O10")
B("resolver-module-memo", ["C08"], "resolve.py",
  "    # If no guess, can't do anything\n    if not supra_citation.metadata.antecedent_guess:\n        return None\n",
  "    # If no guess, can't do anything\n    if not supra_citation.metadata.antecedent_guess:\n        return None\n    global _SUPRA_MEMO\n    _SUPRA_MEMO = supra_citation\n",
  rule="O8")
B("resolver-tags-full-cite", ["C08"], "resolve.py",
  "            # Append both keys and values for further refinement below\n            candidates.append((full_citation, resource))\n",
  "            # Append both keys and values for further refinement below\n            full_citation.metadata.pin_cite = short_citation.metadata.pin_cite\n            candidates.append((full_citation, resource))\n",
  rule="O8")
B("resolver-iterates-set", ["C08"], "resolve.py", "    matches = list(set(matches))\n    return matches[0] if len(matches) == 1 else None\n\n\ndef _filter_by_matching_plaintiff",
  "    matches = list(set(matches))\n    return matches[0] if matches else None\n\n\ndef _filter_by_matching_plaintiff", rule="O9")
B("hash-reads-year", ["C06", "C16"], "models.py", '                            "reporter": self.corrected_reporter(),\n',
  '                            "reporter": self.corrected_reporter(),\n                            "year": self.year,\n')
B("hash-drops-class-tag", ["C06", "C16"], "models.py",
  '                            "reporter": self.corrected_reporter(),\n                            "class": type(self).__name__,\n',
  '                            "reporter": self.corrected_reporter(),\n')
B("placeholder-test-removed", ["C06", "C16"], "models.py", '        if self.groups["page"] is None:\n            return id(self)\n        else:\n            return hash(',
  '        if False:\n            return id(self)\n        else:\n            return hash(')
B("plain-dataclass-subclass", ["C06", "C16"], "models.py", '@dataclass(eq=False, unsafe_hash=False, repr=False)\nclass SupraCitation(CitationBase):',
  '@dataclass\nclass SupraCitation(CitationBase):')
N("fold-rename-loop-var", ["C06", "C07", "C08"], "resolve.py", RES_APPEND,
  "        last_resolution = resolution\n        if resolution is not None and resolution:\n            # Record the citation in the appropriate list\n            resolutions[resolution].append(citation)\n")
N("fold-reorder-elif", ["C06", "C07", "C08"], "resolve.py",
  "        elif isinstance(citation, SupraCitation):\n            resolution = resolve_supra_citation(citation, resolved_full_cites)\n\n        elif isinstance(citation, ReferenceCitation):\n            resolution = resolve_reference_citation(\n                citation, resolved_full_cites\n            )\n",
  "        elif isinstance(citation, ReferenceCitation):\n            resolution = resolve_reference_citation(\n                citation, resolved_full_cites\n            )\n\n        elif isinstance(citation, SupraCitation):\n            resolution = resolve_supra_citation(citation, resolved_full_cites)\n")
N("resolver-adds-logging", ["C06", "C07", "C08"], "resolve.py", "    # If no guess, can't do anything\n    if not supra_citation.metadata.antecedent_guess:\n        return None\n",
  "    # If no guess, can't do anything\n    if not supra_citation.metadata.antecedent_guess:\n        logging.getLogger(__name__).debug(\"no antecedent\")\n        return None\n")
N("select-neq-swapped", ["C07", "C08"], "resolve.py", "    matches = list(set(matches))\n    return matches[0] if len(matches) == 1 else None\n\n\ndef _filter_by_matching_plaintiff",
  "    matches = list(set(matches))\n    return None if len(matches) != 1 else matches[0]\n\n\ndef _filter_by_matching_plaintiff")

# --------------------------------------------------------------------- C07
B("select-any-match", ["C07"], "resolve.py", "    matches = list(set(matches))\n    return matches[0] if len(matches) == 1 else None\n\n\ndef _has_invalid_pin_cite",
  "    matches = list(set(matches))\n    return matches[0] if matches else None\n\n\ndef _has_invalid_pin_cite", rule="R-C07-1")
B("select-ge-one", ["C07"], "resolve.py", "    if len(set(resource for full_citation, resource in candidates)) == 1:\n",
  "    if len(set(resource for full_citation, resource in candidates)) >= 1:\n", rule="R-C07-1")
B("select-no-dedupe", ["C07"], "resolve.py", "    if len(set(resource for full_citation, resource in candidates)) == 1:\n",
  "    if len(candidates) == 1:\n", rule="R-C07-1")
B("short-drops-volume", ["C07"], "resolve.py",
  "            and short_citation.groups.get(\"volume\")\n            == full_citation.groups.get(\"volume\")\n", "", rule="R-C07-2")
B("short-reporter-asymmetric", ["C07"], "resolve.py", "            == full_citation.corrected_reporter()\n", "            == full_citation.groups[\"reporter\"]\n", rule="R-C07-2")
B("last-only-when-resolved", ["C07"], "resolve.py", "        last_resolution = resolution\n        if resolution:\n",
  "        if resolution:\n            last_resolution = resolution\n        if resolution:\n", rule="R-C07-4a")
B("id-skips-pin-check", ["C07"], "resolve.py", "    if _has_invalid_pin_cite(full_cite, id_citation):\n        return None\n\n    return last_resolution\n",
  "    return last_resolution\n", rule="R-C07-4b")
B("pin-no-upper-bound", ["C07"], "resolve.py", "    if pin_cite < page or pin_cite > page + MAX_OPINION_PAGE_COUNT:\n", "    if pin_cite < page:\n", rule="R-C07-4c")
B("pin-no-lower-bound", ["C07"], "resolve.py", "    if pin_cite < page or pin_cite > page + MAX_OPINION_PAGE_COUNT:\n", "    if pin_cite > page + MAX_OPINION_PAGE_COUNT:\n", rule="R-C07-4c")
B("pin-nonnumeric-accepted", ["C07"], "resolve.py", "        # like \"1 U.S. 1. ... Id. at ¶ 10\".\n        return True\n", "        # like \"1 U.S. 1. ... Id. at ¶ 10\".\n        return False\n", rule="R-C07-4c")
B("placeholder-accepted", ["C07"], "resolve.py", "        and full_cite.groups.get(\"page\") is None\n    ):\n        return True\n",
  "        and full_cite.groups.get(\"page\") is None\n    ):\n        return False\n", rule="R-C07-4c")
P("seed-C07-1", ["C07"], "seeded/C07-1/patch.diff")
P("seed-C07-2", ["C07"], "seeded/C07-2/patch.diff")
P("seed-C06-1", ["C06"], "seeded/C06-1/patch.diff")
P("seed-C06-2", ["C06"], "seeded/C06-2/patch.diff")
P("seed-C08-1", ["C08"], "seeded/C08-1/patch.diff")
P("seed-C08-2", ["C08"], "seeded/C08-2/patch.diff")

# ------------------------------------------------------------------ annotate
B("annot-no-clamp", ["C09", "C11"], "annotate.py", "            start = last_end\n            if start >= end:\n", "            if start >= end:\n", rule="C09-F1")
B("annot-cursor-start", ["C09", "C11"], "annotate.py", "        last_end = end\n\n    # append text after final citation\n", "        last_end = start\n\n    # append text after final citation\n", rule="C09-CURSOR")
B("annot-gap-to-end", ["C09", "C11"], "annotate.py", "                plain_text[last_end:start],\n", "                plain_text[last_end:end],\n", rule="C09")
B("annot-no-tail", ["C09", "C11"], "annotate.py", "    if last_end < len(plain_text):\n        out.append(plain_text[last_end:])\n\n    return", "    return", rule="C09-TAIL")
B("annot-revert-empty-span-fix", ["C09", "C11"], "annotate.py", "            end = max(start, offset_updater.update(end, bisect_left))\n", "            end = offset_updater.update(end, bisect_left)\n", rule="C09-F2")
B("annot-revert-skip-overlap-fix", ["C09", "C11"], "annotate.py",
  "                if start < last_end:\n                    # the balanced span reaches back into text that was\n                    # already emitted; skip rather than duplicate it\n                    continue\n", "", rule="C09-F1")
B("wrap-revert-template", ["C09", "C11"], "utils.py", 'lambda m: f"{before}{m[1]}{after}", text', 'rf"{before}\\1{after}", text', rule="C09-WRAP")
B("wrap-drops-tag", ["C09", "C11"], "utils.py", 'lambda m: f"{before}{m[1]}{after}", text', 'lambda m: f"{before}{after}", text', rule="C09-WRAP")
B("balancer-end-from-zero", ["C09", "C11"], "utils.py", "                end = start + matches[0].end()\n", "                end = matches[0].end()\n", rule="C09-BAL")
P("seed-C09-1", ["C09"], "seeded/C09-1/patch.diff")
P("seed-C09-2", ["C09"], "seeded/C09-2/patch.diff")
N("annot-two-appends", ["C09", "C10", "C11"], "annotate.py",
  "        out.extend(\n            [\n                plain_text[last_end:start],\n                annotated_span,\n            ]\n        )\n",
  "        out.append(plain_text[last_end:start])\n        out.append(annotated_span)\n")
N("annot-clamp-with-max", ["C09", "C10", "C11"], "annotate.py",
  "            # include partial annotation if possible\n            start = last_end\n", "            # include partial annotation if possible\n            start = max(start, last_end)\n")
N("annot-fstring-piece", ["C09", "C10", "C11"], "annotate.py", "            annotated_span = before + span_text + after\n", '            annotated_span = f"{before}{span_text}{after}"\n')
B("c10-swap-before-after", ["C10", "C09"], "annotate.py", "            annotated_span = before + span_text + after\n", "            annotated_span = after + span_text + before\n")
B("c10-unsorted", ["C10"], "annotate.py", "    annotations = sorted(annotations)\n", "    annotations = list(annotations)\n", rule="C10-R2")
B("c10-reverse-sorted", ["C10"], "annotate.py", "    annotations = sorted(annotations)\n", "    annotations = sorted(annotations, reverse=True)\n", rule="C10-R2")
B("c10-insert-front", ["C10", "C09"], "annotate.py", "        out.extend(\n            [\n                plain_text[last_end:start],\n                annotated_span,\n            ]\n        )\n",
  "        out.insert(0, plain_text[last_end:start])\n        out.insert(1, annotated_span)\n")
B("c10-source-always", ["C10"], "annotate.py", "        offset_updater = SpanUpdater(plain_text, source_text, use_dmp=use_dmp)\n        plain_text = source_text\n",
  "        offset_updater = SpanUpdater(plain_text, source_text, use_dmp=use_dmp)\n    if source_text:\n        plain_text = source_text.strip()\n", rule="C10-R4")
B("c11-no-retest", ["C11"], "annotate.py",
  "                if not is_balanced_html(span_text):\n                    logger.warning(\n                        \"Citation was not annotated due to unbalanced tags %s\",\n                        original_span_text,\n                    )\n                    continue\n",
  "", rule="C11-R1")
B("c11-wrap-continue", ["C11"], "annotate.py", "                span_text = wrap_html_tags(span_text, after, before)\n", "                continue\n", rule="C11-R2")
B("c11-wrap-args-swapped", ["C11"], "annotate.py", "wrap_html_tags(span_text, after, before)", "wrap_html_tags(span_text, before, after)", rule="C11-R2")
B("c11-oracle-except-true", ["C11"], "utils.py", "    except etree.XMLSyntaxError:\n        return False\n", "    except Exception:\n        return True\n", rule="C11-R4")
B("c11-oracle-no-root", ["C11"], "utils.py", 'etree.fromstring(f"<div>{text}</div>")', 'etree.fromstring(text)', rule="C11-R4")
P("seed-C10-1", ["C10"], "seeded/C10-1/patch.diff", rule="C10-R5")
P("seed-C10-2", ["C10"], "seeded/C10-2/patch.diff", rule="C10-R6")
P("seed-C11-1", ["C11"], "seeded/C11-1/patch.diff")
P("seed-C11-2", ["C11"], "seeded/C11-2/patch.diff", rule="C11-R4")
B("c10-bisect-swapped", ["C10"], "annotate.py", "            start = offset_updater.update(start, bisect_right)\n", "            start = offset_updater.update(start, bisect_left)\n", rule="C10-R7")
B("c10-diff-cleanup", ["C10"], "annotate.py", 'cleanup="No"', 'cleanup="Semantic"', rule="C10-R5")

# ------------------------------------------------------------------ tokenize
B("tok-revert-nominative-rewind", ["C12"], "tokenizers.py",
  "                    # rewind so the text between the start of the dropped\n                    # token and this one is emitted as plain text\n                    offset = last_token.start\n", "", rule="C12-INV")
B("tok-cursor-to-start", ["C12"], "tokenizers.py", "            offset = token.end\n            last_token = token\n", "            offset = token.start\n            last_token = token\n", rule="C12-INV")
B("tok-token-before-gap", ["C12"], "tokenizers.py",
  "            if offset < token.start:\n                # capture plain text before each match\n                self.append_text(all_tokens, text[offset : token.start])\n            # capture match\n            citation_tokens.append((len(all_tokens), token))\n            all_tokens.append(token)\n",
  "            # capture match\n            citation_tokens.append((len(all_tokens), token))\n            all_tokens.append(token)\n            if offset < token.start:\n                # capture plain text before each match\n                self.append_text(all_tokens, text[offset : token.start])\n",
  rule="C12-INV")
B("tok-index-after-token", ["C12"], "tokenizers.py",
  "            citation_tokens.append((len(all_tokens), token))\n            all_tokens.append(token)\n",
  "            all_tokens.append(token)\n            citation_tokens.append((len(all_tokens), token))\n", rule="C12-INV")
B("tok-pop-only-all", ["C12"], "tokenizers.py", "                    citation_tokens.pop(-1)\n                    all_tokens.pop(-1)\n", "                    all_tokens.pop(-1)\n", rule="C12-INV")
B("tok-no-tail", ["C12"], "tokenizers.py", "        if offset < len(text):\n            self.append_text(all_tokens, text[offset:])\n\n        return all_tokens", "        return all_tokens", rule="C12-TAIL")
B("tok-sort-by-end", ["C12"], "tokenizers.py", "key=lambda m: (m.start, -m.end)", "key=lambda m: (-m.end, m.start)", rule="C12-P4")
B("tok-split-any-whitespace", ["C12"], "tokenizers.py", '        for part in text.split(" "):\n', '        for part in text.split():\n', rule="C12-R4")
B("tok-append-text-keeps-extra-space", ["C12"], "tokenizers.py", "        tokens.pop()  # remove final extra space\n", "", rule="C12-R4")
B("tok-from-match-unshifted-end", ["C12"], "models.py", "            m[1], start + offset, end + offset, groups=m.groupdict(), **extra\n", "            m[1], start + offset, end, groups=m.groupdict(), **extra\n", rule="C12-R6")
B("tok-from-match-group-mismatch", ["C12"], "models.py", "        start, end = m.span(1)\n", "        start, end = m.span(0)\n", rule="C12-R6")
B("tok-hyperscan-no-rebase", ["C12"], "tokenizers.py", "                    yield extractor.get_token(m, offset=start)\n", "                    yield extractor.get_token(m)\n", rule="C12-R6")
B("tok-skip-overlap-advances-cursor", ["C12"], "tokenizers.py", "                else:\n                    # skip overlaps\n                    continue\n", "                else:\n                    # skip overlaps\n                    offset = token.end\n                    continue\n", rule="C12-INV")
P("seed-C12-1", ["C12"], "seeded/C12-1/patch.diff")
P("seed-C12-2", ["C12"], "seeded/C12-2/patch.diff", rule="C12-R6")
N("tok-rename-cursor", ["C12"], "tokenizers.py", "            if offset < token.start:\n                # capture plain text before each match\n",
  "            if token.start > offset:\n                # capture plain text before each match\n")
N("tok-pop-default-arg", ["C12"], "tokenizers.py", "                    citation_tokens.pop(-1)\n                    all_tokens.pop(-1)\n", "                    citation_tokens.pop()\n                    all_tokens.pop()\n")

# ------------------------------------------------------------------ C13
B("c13-filter-from-global", ["C13"], "tokenizers.py", "            (s, e)\n            for e in self.extractors\n", "            (s, e)\n            for e in EXTRACTORS\n", rule="R-C13-2")
B("c13-return-set", ["C13"], "tokenizers.py", "        return sorted(\n            unique_extractors, key=lambda e: self.extractor_order[id(e)]\n        )\n", "        return unique_extractors\n", rule="R-C13-6")
B("c13-no-empty-guard", ["C13"], "tokenizers.py", "        if len(self.case_sensitive_filter):\n            for _, extractors in self.case_sensitive_filter.iter(text):\n                unique_extractors.update(extractors)\n",
  "        for _, extractors in self.case_sensitive_filter.iter(text):\n            unique_extractors.update(extractors)\n", rule="R-C13-7")
B("c13-no-ascii-guard", ["C13"], "tokenizers.py", "        if not text.isascii():\n", "        if False:\n", rule="R-C13-1")
B("c13-lower-one-side", ["C13"], "tokenizers.py", "            for _, extractors in self.case_insensitive_filter.iter(\n                text.lower()\n            ):\n", "            for _, extractors in self.case_insensitive_filter.iter(\n                text\n            ):\n", rule="R-C13-4")
B("c13-partition-gap", ["C13"], "tokenizers.py", "            e for e in self.extractors if not e.strings\n", "            e for e in self.extractors if not e.strings and not e.flags & re.I\n", rule="R-C13-3")
B("c13-strings-always", ["C13"], "tokenizers.py", "        have_strings = re.escape(reporters[0]) in regex\n", "        have_strings = True\n", rule="R-C13-1")
B("c13-strings-first-only", ["C13"], "tokenizers.py", "            editions_by_regex[regex][\"strings\"].update(reporters)\n", "            editions_by_regex[regex][\"strings\"].add(reporters[0])\n", rule="R-C13-1")
B("c13-stopword-string-missing", ["C13"], "tokenizers.py", "                strings=STOP_WORDS,\n", "                strings=STOP_WORDS[1:],\n", rule="R-C13-1")
B("c13-id-string-no-dot", ["C13"], "tokenizers.py", '                strings=["id.", "ibid."],\n', '                strings=["id.,", "ibid."],\n', rule="R-C13-1")
B("c13-hits-intersected", ["C13"], "tokenizers.py", "            for _, extractors in self.case_sensitive_filter.iter(text):\n                unique_extractors.update(extractors)\n",
  "            for _, extractors in self.case_sensitive_filter.iter(text):\n                unique_extractors.intersection_update(extractors)\n", rule="R-C13-5")
B("c13-group-overwrites", ["C13"], "tokenizers.py", "            grouped[string].append(extractor)\n", "            grouped[string] = [extractor]\n", rule="R-C13-5")
P("seed-C13-1", ["C13"], "seeded/C13-1/patch.diff", rule="R-C13-1")
P("seed-C13-2", ["C13"], "seeded/C13-2/patch.diff", rule="R-C13-5")
N("c13-ignorecase-spelling", ["C13"], "tokenizers.py", "            if e.strings and not e.flags & re.I\n", "            if e.strings and not e.flags & re.IGNORECASE\n")
N("c13-order-by-comprehension", ["C13"], "tokenizers.py", "        return sorted(\n            unique_extractors, key=lambda e: self.extractor_order[id(e)]\n        )\n",
  "        return [e for e in self.extractors if e in unique_extractors]\n")

# ------------------------------------------------------------------ C15
B("c15-merge-dedupe-through-set", ["C15"], "models.py", "                self.exact_editions = tuple(dict.fromkeys(self.exact_editions))\n", "                self.exact_editions = tuple(set(self.exact_editions))\n", rule="R-C15-1")
B("c15-get-extractors-returns-set", ["C15"], "tokenizers.py", "        return sorted(\n            unique_extractors, key=lambda e: self.extractor_order[id(e)]\n        )\n", "        return unique_extractors\n", rule="R-C15-1")
B("c15-dedupe-citations-through-set", ["C15"], "helpers.py", "    citations = list(\n        {citation.span(): citation for citation in citations}.values()\n    )\n",
  "    citations = list(set(citations))\n", rule="R-C15-1")
B("c15-module-level-cache", ["C15"], "helpers.py", "    court_str = re.sub(r\"[^\\w]\", \"\", paren_string).lower()\n",
  "    court_str = re.sub(r\"[^\\w]\", \"\", paren_string).lower()\n    _SEEN_COURTS.append(court_str)\n", rule="R-C15-3")
B("c15-tokenizer-keeps-last-text", ["C15"], "tokenizers.py", "        citation_tokens = []\n        all_tokens: Tokens = []\n", "        citation_tokens = []\n        self.last_text = text\n        all_tokens: Tokens = []\n", rule="R-C15-3")
B("c15-extractor-mutated", ["C15"], "tokenizers.py", "            for match in extractor.get_matches(text):\n", "            extractor.strings.append(text[:1])\n            for match in extractor.get_matches(text):\n", rule="R-C15-3")
B("c15-random-tiebreak", ["C15"], "tokenizers.py", "key=lambda m: (m.start, -m.end)", "key=lambda m: (m.start, -m.end, random.random())", rule="R-C15-4")
B("c15-citation-hash-uses-str-hash", ["C15"], "models.py",
  "        return hash(\n            hash_sha256(\n                {**dict(self.groups.items()), **{\"class\": type(self).__name__}}\n            )\n        )\n",
  "        return hash(repr(sorted(self.groups.items())) + type(self).__name__)\n", rule="R-C15-2")
B("c15-time-dependent-year", ["C15"], "helpers.py", "    if year < 1600 or year > _highest_valid_year:\n", "    if year < 1600 or year > date.today().year + 1:\n", rule="R-C15-4")
P("seed-C15-1", ["C15"], "seeded/C15-1/patch.diff", rule="R-C15-3")
P("seed-C15-2", ["C15"], "seeded/C15-2/patch.diff", rule="R-C15-3")
N("c15-sorted-set", ["C15"], "find.py", "    cite_sources = set(\n        e.reporter.source\n        for e in (token.exact_editions or token.variation_editions)\n    )\n",
  "    cite_sources = frozenset(\n        e.reporter.source\n        for e in (token.exact_editions or token.variation_editions)\n    )\n")
N("c15-local-fresh-mutation", ["C15"], "helpers.py", "    filtered_citations: List[CitationBase] = [sorted_citations[0]]\n", "    filtered_citations: List[CitationBase] = []\n    filtered_citations.append(sorted_citations[0])\n")

# ------------------------------------------------------------------ C16 / C18
P("seed-C16-1", ["C16", "C18"], "seeded/C16-1/patch.diff")
P("seed-C16-2", ["C16"], "seeded/C16-2/patch.diff", rule="R-C16-4")
P("seed-C18-1", ["C18"], "seeded/C18-1/patch.diff", rule="R-C18-1")
P("seed-C18-2", ["C18"], "seeded/C18-2/patch.diff", rule="R-C18-5")
B("c18-revert-defendant-year", ["C18"], "helpers.py", "                citation.year = get_year(year)\n", "                citation.year = int(year)\n", rule="R-C18-1")
B("c18-no-lower-bound", ["C18"], "helpers.py", "    if year < 1600 or year > _highest_valid_year:\n", "    if year > _highest_valid_year:\n", rule="R-C18-3")
B("c18-upper-bound-this-year", ["C18"], "helpers.py", "_highest_valid_year = date.today().year + 1\n", "_highest_valid_year = date.today().year + 10\n", rule="R-C18-3")
B("c18-year-group-loose", ["C18"], "regexes.py", "        (?P<year>\n            \\d{4}\n        )\n", "        (?P<year>\n            \\d{2,4}\n        )\n", rule="R-C18-3")
B("c18-numeric-without-textual", ["C18"], "helpers.py", "    citation.metadata.year = m[\"year\"]\n    if m[\"year\"]:\n        citation.year = get_year(m[\"year\"])\n    if m[\"court\"]:\n",
  "    if m[\"year\"]:\n        citation.year = get_year(m[\"year\"])\n    if m[\"court\"]:\n", rule="R-C18-2")
B("c18-guess-first-of-many", ["C18", "C16"], "models.py", "        if len(editions) == 1:\n            self.edition_guess = editions[0]\n", "        if len(editions) >= 1:\n            self.edition_guess = editions[0]\n")
B("c18-variations-before-exact", ["C18", "C16"], "models.py", "        editions = self.exact_editions or self.variation_editions\n", "        editions = self.variation_editions or self.exact_editions\n")
B("c18-guess-outside-candidates", ["C18", "C16"], "models.py", "        if len(editions) == 1:\n            self.edition_guess = editions[0]\n",
  "        if len(editions) == 1:\n            self.edition_guess = editions[0]\n        elif self.all_editions:\n            self.edition_guess = self.all_editions[0]\n")
B("c18-disambiguate-drops-nonresource", ["C18"], "helpers.py", "        if not isinstance(c, ResourceCitation) or c.edition_guess\n", "        if isinstance(c, ResourceCitation) and c.edition_guess\n", rule="R-C18-5")
B("c18-flag-used-early", ["C18"], "find.py", "                citation = _extract_full_citation(document.words, i)\n",
  "                citation = _extract_full_citation(document.words, i)\n                if remove_ambiguous and not citation.edition_guess:\n                    continue\n", rule="R-C18-5")
N("c18-guess-early-return", ["C18", "C16"], "models.py", "        if len(editions) == 1:\n            self.edition_guess = editions[0]\n",
  "        if len(editions) != 1:\n            return\n        self.edition_guess = editions[0]\n")
B("c16-short-form-not-normalised", ["C16"], "find.py", "    citation.guess_edition()\n    citation.guess_court()\n    return citation\n", "    citation.guess_court()\n    return citation\n", rule="R-C16-5")
B("c16-journal-skips-super", ["C16"], "models.py", "        add_journal_metadata(self, words)\n        super().add_metadata(words)\n", "        add_journal_metadata(self, words)\n", rule="R-C16-5")
B("c16-corrected-reporter-ignores-guess", ["C16"], "models.py",
  "        return (\n            self.edition_guess.short_name\n            if self.edition_guess\n            else self.groups[\"reporter\"]\n        )\n", "        return self.groups[\"reporter\"]\n", rule="R-C16-5")
B("c16-hash-reads-metadata", ["C16", "C06"], "models.py", '                            "reporter": self.corrected_reporter(),\n', '                            "reporter": self.corrected_reporter(),\n                            "pin": self.metadata.pin_cite,\n')
B("c16-eq-compares-fields", ["C16", "C06"], "models.py", "        return self.__hash__() == other.__hash__()\n\n    @dataclass(eq=True, unsafe_hash=True)\n    class Metadata:\n",
  "        return self.groups == other.groups and self.metadata == other.metadata\n\n    @dataclass(eq=True, unsafe_hash=True)\n    class Metadata:\n")
B("c16-id-citation-value-hash", ["C16", "C06"], "models.py", '        """IdCitation objects are always considered unique for safety."""\n        return id(self)\n',
  '        """IdCitation objects are always considered unique for safety."""\n        return hash(self.metadata.pin_cite)\n')
B("c16-sha-unsorted", ["C16", "C06"], "utils.py", "json.dumps(dictionary, sort_keys=True, default=str)", "json.dumps(dictionary, default=str)")

# ------------------------------------------------------------------ C17
P("seed-C17-1", ["C17"], "seeded/C17-1/patch.diff", rule="R-C17-3")
B("c17-revert-defined-start", ["C17"], "models.py", "        if (\n            self.full_span_start is not None\n            and self.full_span_start == preceding.full_span_start\n        ):\n",
  "        if self.full_span_start == preceding.full_span_start:\n", rule="R-C17-3")
B("c17-copy-unconditionally", ["C17"], "models.py", "            self.metadata.year = preceding.metadata.year\n            self.year = preceding.year\n",
  "            pass\n        self.metadata.year = self.metadata.year or preceding.metadata.year\n", rule="R-C17-3")
B("c17-parallel-with-any-earlier", ["C17"], "find.py", "                    pre = cast(FullCaseCitation, citations[-1])  # type: ignore\n", "                    pre = cast(FullCaseCitation, citations[0])  # type: ignore\n", rule="R-C17-3")
B("c17-default-year", ["C17"], "helpers.py", "    citation.metadata.year = m[\"year\"]\n    if m[\"year\"]:\n        citation.year = get_year(m[\"year\"])\n    if m[\"court\"]:\n",
  "    citation.metadata.year = m[\"year\"] or \"n.d.\"\n    if m[\"year\"]:\n        citation.year = get_year(m[\"year\"])\n    if m[\"court\"]:\n", rule="R-C17-1")
B("c17-lowercased-antecedent", ["C17"], "find.py", "        antecedent_guess = m[\"antecedent\"].strip()\n", "        antecedent_guess = m[\"antecedent\"].strip().title()\n", rule="R-C17-1")
B("c17-metadata-without-extent", ["C17"], "helpers.py", "    citation.full_span_end = citation.span()[1] + m.end()\n    citation.metadata.pin_cite = clean_pin_cite(m[\"pin_cite\"]) or None\n    citation.metadata.publisher = m[\"publisher\"]\n",
  "    citation.metadata.pin_cite = clean_pin_cite(m[\"pin_cite\"]) or None\n    citation.metadata.publisher = m[\"publisher\"]\n", rule="R-C17-2")
B("c17-scan-text-from-elsewhere", ["C17"], "helpers.py", "        if forward:\n            text += str(token)\n", "        if forward:\n            text += str(token).upper()\n", rule="R-C17-1")
B("c17-parenthetical-rewritten", ["C17"], "helpers.py", "            return matched_parenthetical[:i] or None\n", "            return matched_parenthetical[:i].replace(\"\\n\", \" \") or None\n", rule="R-C17-1")
N("c17-strip-more", ["C17"], "helpers.py", "    citation.metadata.extra = (m[\"extra\"] or \"\").strip() or None\n", "    citation.metadata.extra = (m[\"extra\"] or \"\").strip(\" ,\") or None\n")

# ------------------------------------------------------------------ C03 / C19
P("seed-C03-1", ["C03"], "seeded/C03-1/patch.diff", rule="R-C03-6")
P("seed-C03-2", ["C03", "C19"], "seeded/C03-2/patch.diff")
P("seed-C19-1", ["C19", "C17"], "seeded/C19-1/patch.diff")
P("seed-C19-2", ["C19"], "seeded/C19-2/patch.diff", rule="R-C19-5")
B("c03-revert-sort-key", ["C03", "C19"], "helpers.py", "    sorted_citations = sorted(citations, key=lambda citation: citation.span())\n",
  "    sorted_citations = sorted(\n        citations, key=lambda citation: citation.full_span()\n    )\n", rule="R-C03-5")
B("c03-no-filter-when-flag", ["C03"], "find.py", "    citations = filter_citations(citations)\n", "    if not remove_ambiguous:\n        citations = filter_citations(citations)\n", rule="R-C03-1")
B("c03-append-after-filter", ["C03"], "find.py", "    if remove_ambiguous:\n        citations = disambiguate_reporters(citations)\n",
  "    if remove_ambiguous:\n        citations = disambiguate_reporters(citations)\n    citations.sort(key=lambda c: c.index)\n", rule="R-C03-1")
_DD = '    by_span: dict = {}\n    for citation in citations:\n        kept = by_span.get(citation.span())\n        if (\n            kept is None\n            or not isinstance(citation, ReferenceCitation)\n            or isinstance(kept, ReferenceCitation)\n        ):\n            by_span[citation.span()] = citation\n    citations = list(by_span.values())\n'
B("c03-no-dedupe", ["C03", "C19"], "helpers.py", _DD, "    citations = list(citations)\n", rule="R-C03-3")
B("c03-revert-dedupe-preference", ["C03", "C19"], "helpers.py", _DD,
  "    citations = list(\n        {citation.span(): citation for citation in citations}.values()\n    )\n", rule="R-C03-3")
B("c03-dedupe-reference-wins", ["C03", "C19"], "helpers.py", "            or not isinstance(citation, ReferenceCitation)\n            or isinstance(kept, ReferenceCitation)\n",
  "            or isinstance(citation, ReferenceCitation)\n            or isinstance(kept, ReferenceCitation)\n", rule="R-C03-3")
N("c03-dedupe-benign-nested-ifs", ["C03", "C19"], "helpers.py", _DD,
  "    by_span = {}\n    for citation in citations:\n        kept = by_span.get(citation.span())\n        if kept is not None and isinstance(citation, ReferenceCitation) and not isinstance(kept, ReferenceCitation):\n            continue\n        by_span[citation.span()] = citation\n    citations = list(by_span.values())\n")
B("c03-drop-nonreference", ["C03", "C19"], "helpers.py", "            if isinstance(citation, ReferenceCitation):\n                continue\n\n            # Known overlap case",
  "            if isinstance(citation, (ReferenceCitation, ShortCaseCitation)):\n                continue\n\n            # Known overlap case")
B("c03-pop-any-last", ["C03", "C19"], "helpers.py", "                    filtered_citations\n                    and isinstance(filtered_citations[-1], ReferenceCitation)\n                    and overlapping_citations(",
  "                    filtered_citations\n                    and overlapping_citations(")
B("c03-sorted-reverse", ["C03"], "helpers.py", "    sorted_citations = sorted(citations, key=lambda citation: citation.span())\n", "    sorted_citations = sorted(citations, key=lambda citation: citation.span(), reverse=True)\n", rule="R-C03-2")
N("c03-key-span-start", ["C03", "C19"], "helpers.py", "    sorted_citations = sorted(citations, key=lambda citation: citation.span())\n", "    sorted_citations = sorted(citations, key=lambda citation: (citation.span()[0], citation.span()[1]))\n")
B("c19-markup-read-in-full-extraction", ["C19"], "find.py", "    citation.add_metadata(words)\n\n    return citation\n", "    citation.add_metadata(words)\n    if getattr(words, 'document', None) and words.document.markup_text:\n        citation.metadata.extra = None\n\n    return citation\n", rule="R-C19-1")
B("c19-reference-without-validity", ["C19"], "find.py", "        if (value := getattr(citation.metadata, key, None))\n        and is_valid_name(value)\n", "        if (value := getattr(citation.metadata, key, None))\n", rule="R-C19-4")
B("c19-markup-name-unvalidated", ["C19"], "find.py", "            if not is_valid_name(value):\n                continue\n", "", rule="R-C19-4")
B("c19-offset-not-rebased", ["C19"], "find.py", "            span_start=start + offset,\n            span_end=end + offset,\n", "            span_start=start,\n            span_end=end + offset,\n", rule="R-C19-5")
B("c19-scan-whole-text", ["C19"], "find.py", "    remaining_text = plain_text[citation.span()[-1] :]\n    offset = citation.span()[-1]\n", "    remaining_text = plain_text[citation.full_span()[0] :]\n    offset = citation.full_span()[0]\n", rule="R-C19-5")
B("c19-reference-for-any-citation", ["C19"], "find.py", "    if not isinstance(citation, FullCaseCitation):\n        return []\n\n    reference_citations = extract_pincited", "    reference_citations = extract_pincited", rule="R-C19-2")
B("c19-valid-name-allows-short", ["C19"], "utils.py", "        and len(name) > 2\n", "", rule="R-C19-4")
B("c19-tokenize-markup", ["C19"], "models.py", "        self.words, self.citation_tokens = tokenizer.tokenize(self.plain_text)\n", "        self.words, self.citation_tokens = tokenizer.tokenize(\n            self.markup_text or self.plain_text\n        )\n", rule="R-C19-1")

# ------------------------------------------------------------------ C20
P("seed-C20-1", ["C20"], "seeded/C20-1/patch.diff", rule="R-C20-1")
P("seed-C20-2", ["C20"], "seeded/C20-2/patch.diff", rule="R-C20-5")
B("c20-unknown-step-ignored", ["C20"], "clean.py", "        else:\n            raise ValueError(\n                \"clean_text steps must be callable \"\n                f\"or one of {list(cleaners_lookup.keys())}\"\n            )\n",
  "        else:\n            continue\n")
B("c20-keyerror-instead", ["C20"], "clean.py", "            raise ValueError(\n", "            raise KeyError(\n", rule="R-C20-2")
B("c20-star-instead-of-plus", ["C20"], "clean.py", 'return re.sub(r"[ \\t]+", " ", text)', 'return re.sub(r"[ \\t]*", " ", text)', rule="R-C20-4")
B("c20-replacement-outside-class", ["C20"], "clean.py", 'return re.sub(r"[ \\t]+", " ", text)', 'return re.sub(r"[ \\t]+", "\\n", text)', rule="R-C20-4")
B("c20-two-char-replacement", ["C20"], "clean.py", 'return re.sub(r"\\s+", " ", text)', 'return re.sub(r"\\s+", "  ", text)', rule="R-C20-4")
B("c20-underscores-single", ["C20"], "clean.py", 'return re.sub(r"__+", "", text)', 'return re.sub(r"_+", " ", text)', rule="R-C20-4")
B("c20-table-mismatch", ["C20"], "clean.py", '    "inline_whitespace": inline_whitespace,\n    "all_whitespace": all_whitespace,\n', '    "inline_whitespace": all_whitespace,\n    "all_whitespace": all_whitespace,\n', rule="R-C20-3")
B("c20-applies-twice", ["C20"], "clean.py", "        text = step_func(text)\n\n    return text", "        text = step_func(step_func(text))\n\n    return text", rule="R-C20-1")
B("c20-html-keeps-script", ["C20"], "clean.py", "            parent::head |\n            parent::script)]", "            parent::head)]", rule="R-C20-5")
N("c20-underscore-quantifier", ["C20"], "clean.py", 'return re.sub(r"__+", "", text)', 'return re.sub(r"_{2,}", "", text)')
N("c20-lookup-get", ["C20"], "clean.py", "        if step in cleaners_lookup:\n            step_func = cleaners_lookup[step]  # type: ignore\n", "        if step in cleaners_lookup:\n            step_func = cleaners_lookup[step]\n")

# ------------------------------------------------------------------ C04
P("seed-C04-1", ["C04"], "seeded/C04-1/patch.diff", rule="T4")
P("seed-C04-2", ["C04"], "seeded/C04-2/patch.diff", rule="T5")
B("c04-unchecked-post-citation-match", ["C04"], "helpers.py", "        POST_FULL_CITATION_REGEX,\n    )\n    if not m:\n        return\n", "        POST_FULL_CITATION_REGEX,\n    )\n", rule="T2")
B("c04-unchecked-hyperscan-rematch", ["C04"], "tokenizers.py", "                if m:\n                    yield extractor.get_token(m, offset=start)\n", "                yield extractor.get_token(m, offset=start)\n", rule="T2")
B("c04-antecedent-made-optional", ["C04"], "regexes.py", "    (?P<antecedent>[A-Za-z][\\w\\-.]+)\\ ?,?\n    \\   # final space\n", "    (?P<antecedent>[A-Za-z][\\w\\-.]+)?\\ ?,?\n    \\   # final space\n", rule="T3")
B("c04-pin-cite-len-unguarded", ["C04"], "helpers.py", "    if m[\"pin_cite\"]:\n        citation.metadata.pin_cite_span_end = citation.span()[1] + len(\n            m[\"pin_cite\"]\n        )\n",
  "    citation.metadata.pin_cite_span_end = citation.span()[1] + len(\n        m[\"pin_cite\"]\n    )\n", rule="T3")
B("c04-int-volume", ["C04"], "find.py", "        antecedent_guess = m[\"antecedent\"]\n        volume = m[\"volume\"]\n", "        antecedent_guess = m[\"antecedent\"]\n        volume = str(int(m[\"volume\"]))\n")
B("c04-page-replace-unguarded", ["C04"], "models.py", "        if corrected_page and corrected_page != self.groups[\"page\"]:\n", "        if corrected_page != self.groups[\"page\"]:\n", rule="T4")
B("c04-first-candidate-unguarded", ["C04"], "resolve.py", "    matches = list(set(matches))\n    return matches[0] if len(matches) == 1 else None\n\n\ndef _has_invalid_pin_cite", "    matches = list(set(matches))\n    return matches[0]\n\n\ndef _has_invalid_pin_cite", rule="T6")
B("c04-citations-last-unguarded", ["C04"], "find.py", "                if (\n                    citations\n                    and isinstance(citation, FullCaseCitation)\n", "                if (\n                    isinstance(citation, FullCaseCitation)\n", rule="T6")
B("c04-name-not-escaped", ["C04"], "find.py", '        rf"(?P<{key}>{re.escape(value)})"\n', '        rf"(?P<{key}>{value})"\n', rule="T8")
B("c04-metadata-key-typo", ["C04"], "find.py", '            "pin_cite": pin_cite,\n            "parenthetical": parenthetical,\n            "volume": volume,\n', '            "pincite": pin_cite,\n            "parenthetical": parenthetical,\n            "volume": volume,\n', rule="T9")
B("c04-new-raise-on-input", ["C04"], "helpers.py", "    if year < 1600 or year > _highest_valid_year:\n        return None\n", "    if year < 1600 or year > _highest_valid_year:\n        raise ValueError(word)\n", rule="T1")
B("c04-fourth-source-tag", ["C04"], "tokenizers.py", '                source="journals",\n', '                source="periodicals",\n', rule="T1")
B("c04-stop-word-group-renamed", ["C04"], "regexes.py", "rf'(?P<stop_word>{\"|\".join(STOP_WORDS)})'", "rf'(?P<stopword>{\"|\".join(STOP_WORDS)})'", rule="T7")
N("c04-guard-is-none", ["C04"], "helpers.py", "        words, citation.index + 1, POST_LAW_CITATION_REGEX, strings_only=True\n    )\n    if not m:\n        return\n", "        words, citation.index + 1, POST_LAW_CITATION_REGEX, strings_only=True\n    )\n    if m is None:\n        return\n")
N("c04-nested-guard", ["C04"], "find.py", "    if m:\n        antecedent_guess = m[\"antecedent\"]\n        volume = m[\"volume\"]\n        antecedent_length = m.span()[1] - m.span()[0]\n    else:\n        antecedent_length = 0\n",
  "    antecedent_length = 0\n    if m is not None:\n        antecedent_guess = m[\"antecedent\"]\n        volume = m[\"volume\"]\n        antecedent_length = m.span()[1] - m.span()[0]\n")

# ------------------------------------------------------------------ C14
P("seed-C14-1", ["C14"], "seeded/C14-1/patch.diff", rule="R-C14-7")
P("seed-C14-2", ["C14"], "seeded/C14-2/patch.diff", rule="R-C14-6")
B("c14-revert-handler", ["C14"], "tokenizers.py", "                    except hyperscan.error:\n", "                    except hyperscan.InvalidError:\n", rule="R-C14-4")
B("c14-unchecked-rematch", ["C14"], "tokenizers.py", "                if m:\n                    yield extractor.get_token(m, offset=start)\n", "                yield extractor.get_token(m, offset=start)\n", rule="R-C14-1")
B("c14-no-rematch", ["C14"], "tokenizers.py", "                m = extractor.compiled_regex.match(text[start:end])\n", "                m = re.match(\"(.*)\", text[start:end])\n", rule="R-C14-1")
B("c14-key-without-flags", ["C14"], "tokenizers.py", "                    str(expressions).encode(\"utf8\") + str(flags).encode(\"utf8\")\n", "                    str(expressions).encode(\"utf8\")\n", rule="R-C14-6")
B("c14-failed-load-keeps-stale-db", ["C14"], "tokenizers.py", "            if not hyperscan_db:\n                # No cache, so compile database.\n", "            if not hyperscan_db and not cache:\n                # No cache, so compile database.\n", rule="R-C14-4")
B("c14-keep-misaligned-hits", ["C14"], "tokenizers.py", "            except UnicodeDecodeError:\n                # offsets will fail to decode for invalid regex matches\n                # that don't align with a unicode character\n                continue\n",
  "            except UnicodeDecodeError:\n                str_offset += 1\n", rule="R-C14-7")
B("c14-extractors-filtered-for-db", ["C14"], "tokenizers.py", "            expressions = [convert_regex(e.regex) for e in self.extractors]\n", "            expressions = [convert_regex(e.regex) for e in self.extractors if e.strings]\n", rule="R-C14-6")
B("c14-section-sign-repeat", ["C14"], "tokenizers.py", "                r.replace(r\"§ \", r\"§§? ?\") for r in regex_templates\n", "                r.replace(r\"§ \", r\"§{1,2} ?\") for r in regex_templates\n", rule="R-C14-3")
N("c14-handler-exception", ["C14"], "tokenizers.py", "                    except hyperscan.error:\n", "                    except Exception:\n")

# ------------------------------------------------------------------ C01 / C02
P("seed-C01-1", ["C01"], "seeded/C01-1/patch.diff", rule="R-C01-7")
P("seed-C01-2", ["C01"], "seeded/C01-2/patch.diff", rule="R-C01-6")
P("seed-C02-1", ["C02"], "seeded/C02-1/patch.diff", rule="R-C02-4")
P("seed-C02-2", ["C02"], "seeded/C02-2/patch.diff")
B("c01-supra-branch-dropped", ["C01"], "find.py", "        elif token_type is SupraToken:\n            citation = _extract_supra_citation(document.words, i)\n", "", rule="R-C01-1")
B("c01-branch-tests-wrong-class", ["C01"], "find.py", "        elif token_type is IdToken:\n", "        elif token_type is SectionToken and False:\n", rule="R-C01-1")
B("c01-metadata-field-typo", ["C01"], "helpers.py", "    citation.metadata.pin_cite = clean_pin_cite(m[\"pin_cite\"]) or None\n    citation.metadata.publisher = m[\"publisher\"]\n",
  "    citation.metadata.pincite = clean_pin_cite(m[\"pin_cite\"]) or None\n    citation.metadata.publisher = m[\"publisher\"]\n", rule="R-C01-4")
B("c01-group-renamed-in-regex", ["C01"], "regexes.py", "        (?P<publisher>\n", "        (?P<pub>\n", rule="R-C01-3")
B("c01-short-cite-without-space", ["C01"], "regexes.py", 'return regex.replace("(?P<page>", "at (?P<page>")', 'return regex.replace("(?P<page>", "at(?P<page>")', rule="R-C01-5")
B("c01-short-flag-inverted", ["C01"], "find.py", "            if citation_token.short:\n                citation = _extract_shortform_citation(document.words, i)\n            else:\n                citation = _extract_full_citation(document.words, i)\n",
  "            if not citation_token.short:\n                citation = _extract_shortform_citation(document.words, i)\n            else:\n                citation = _extract_full_citation(document.words, i)\n", rule="R-C01-5")
B("c01-backward-anchor-at-start", ["C01"], "helpers.py", '        regex = rf"(?:{regex})$"\n', '        regex = rf"^(?:{regex})"\n', rule="R-C01-6")
N("c01-rename-token-type", ["C01"], "find.py", "        token_type = type(token)\n", "        token_type = type(token)  # exact class\n")
B("c02-span-end-from-start", ["C02"], "helpers.py", "            from_token.end + max(extra_chars - len(prefix), 0),\n", "            from_token.start + max(extra_chars - len(prefix), 0),\n", rule="R-C02-4")
B("c02-full-span-start-plus", ["C02"], "helpers.py", "    citation.full_span_start = citation.span()[0] - match_length\n", "    citation.full_span_start = citation.span()[0] + match_length\n", rule="R-C02-4")
B("c02-pin-span-end-from-zero", ["C02"], "helpers.py", "        citation.metadata.pin_cite_span_end = citation.span()[1] + len(\n            m[\"pin_cite\"]\n        )\n", "        citation.metadata.pin_cite_span_end = len(\n            m[\"pin_cite\"]\n        )\n", rule="R-C02-4")
B("c02-span-prefers-token", ["C02"], "models.py", "            self.span_end if self.span_end is not None else self.token.end,\n", "            self.token.end if self.span_end is not None else self.span_end,\n", rule="R-C02-3")
B("c02-group1-optional", ["C02"], "regexes.py", 'return rf"(?:^|[^a-zA-Z0-9])({regex})(?:[^a-zA-Z0-9]|$)"', 'return rf"(?:^|[^a-zA-Z0-9])({regex})?(?:[^a-zA-Z0-9]|$)"')
B("c02-markup-offset-not-translated", ["C02"], "find.py", "                span_start=start_in_plain,\n                span_end=end_in_plain,\n", "                span_start=start_in_markup + match.start(1),\n                span_end=end_in_plain,\n", rule="R-C19-5")
B("c02-balancer-not-rebased", ["C02"], "utils.py", "                start = extended_start + matches[-1].start()\n", "                start = matches[-1].start()\n", rule="R-C02-1")
N("c02-max-arg-order", ["C02"], "helpers.py", "            from_token.end + max(extra_chars - len(prefix), 0),\n", "            from_token.end + max(0, extra_chars - len(prefix)),\n")
B("c10-revert-index-clamp", ["C10"], "annotate.py", "        index = max(bisect(self.offsets, offset) - 1, 0)\n", "        index = bisect(self.offsets, offset) - 1\n", rule="C10-R8")
B("c01-edition-not-escaped", ["C01"], "tokenizers.py", '        edition = "|".join(re.escape(e) for e in edition_names)\n', '        edition = "|".join(e.replace(".", "") for e in edition_names)\n', rule="R-C01-8")
B("c01-variations-dropped", ["C01"], "tokenizers.py", "                edition_variations = [\n                    k for k, v in variations.items() if v == edition_name\n                ]\n", "                edition_variations = []\n", rule="R-C01-9")
B("c01-journals-not-loaded", ["C01"], "tokenizers.py", "    for source_key, source_cluster in JOURNALS.items():\n", "    for source_key, source_cluster in list(JOURNALS.items())[:10]:\n", rule="R-C01-9")
B("c18-includes-year-no-end", ["C18"], "models.py", "            and (self.end is None or self.end.year >= year)\n", "", rule="R-C18-6")
B("c18-includes-year-none-crash", ["C18"], "models.py", "            and (self.start is None or self.start.year <= year)\n", "            and self.start.year <= year\n", rule="R-C18-6")

# ------------------------------------------------------------------ round-2 seeds
P("seed-C02-3", ["C02"], "seeded/C02-3/patch.diff")
P("seed-C02-4", ["C02"], "seeded/C02-4/patch.diff")
P("seed-C03-3", ["C03"], "seeded/C03-3/patch.diff")
P("seed-C03-4", ["C03"], "seeded/C03-4/patch.diff")
P("seed-C04-3", ["C04"], "seeded/C04-3/patch.diff")
P("seed-C04-4", ["C04"], "seeded/C04-4/patch.diff")
P("seed-C06-3", ["C06"], "seeded/C06-3/patch.diff")
P("seed-C06-4", ["C06"], "seeded/C06-4/patch.diff")
P("seed-C07-3", ["C07"], "seeded/C07-3/patch.diff")
P("seed-C07-4", ["C07"], "seeded/C07-4/patch.diff")
P("seed-C08-3", ["C08"], "seeded/C08-3/patch.diff")
P("seed-C08-4", ["C08"], "seeded/C08-4/patch.diff")
P("seed-C09-3", ["C09"], "seeded/C09-3/patch.diff")
P("seed-C09-4", ["C09"], "seeded/C09-4/patch.diff")
P("seed-C10-3", ["C10"], "seeded/C10-3/patch.diff")
P("seed-C10-4", ["C10"], "seeded/C10-4/patch.diff")
P("seed-C11-3", ["C11"], "seeded/C11-3/patch.diff")
P("seed-C11-4", ["C11"], "seeded/C11-4/patch.diff")
P("seed-C12-3", ["C12"], "seeded/C12-3/patch.diff")
P("seed-C12-4", ["C12"], "seeded/C12-4/patch.diff")
P("seed-C13-3", ["C13"], "seeded/C13-3/patch.diff")
P("seed-C13-4", ["C13"], "seeded/C13-4/patch.diff")
P("seed-C14-3", ["C14"], "seeded/C14-3/patch.diff")
P("seed-C14-4", ["C14"], "seeded/C14-4/patch.diff")
P("seed-C15-3", ["C15"], "seeded/C15-3/patch.diff")
P("seed-C15-4", ["C15"], "seeded/C15-4/patch.diff")
P("seed-C16-3", ["C16"], "seeded/C16-3/patch.diff")
P("seed-C16-4", ["C16"], "seeded/C16-4/patch.diff")
P("seed-C17-3", ["C17"], "seeded/C17-3/patch.diff")
P("seed-C17-4", ["C17"], "seeded/C17-4/patch.diff")
P("seed-C18-3", ["C18"], "seeded/C18-3/patch.diff")
P("seed-C18-4", ["C18"], "seeded/C18-4/patch.diff")
P("seed-C19-3", ["C19"], "seeded/C19-3/patch.diff")
P("seed-C19-4", ["C19"], "seeded/C19-4/patch.diff")
P("seed-C20-3", ["C20"], "seeded/C20-3/patch.diff")
P("seed-C20-4", ["C20"], "seeded/C20-4/patch.diff")

# ------------------------------------------------------------------ round-3 seeds (those the property's own check reports)
P("seed-C01-6", ["C01"], "seeded/C01-6/patch.diff")
P("seed-C02-5", ["C02"], "seeded/C02-5/patch.diff")
P("seed-C02-6", ["C02"], "seeded/C02-6/patch.diff")
P("seed-C03-5", ["C03"], "seeded/C03-5/patch.diff")
P("seed-C04-5", ["C04"], "seeded/C04-5/patch.diff")
P("seed-C06-5", ["C06"], "seeded/C06-5/patch.diff")
P("seed-C06-6", ["C06"], "seeded/C06-6/patch.diff")
P("seed-C07-5", ["C07"], "seeded/C07-5/patch.diff")
P("seed-C07-6", ["C07"], "seeded/C07-6/patch.diff")
P("seed-C08-5", ["C08"], "seeded/C08-5/patch.diff")
P("seed-C08-6", ["C08"], "seeded/C08-6/patch.diff")
P("seed-C09-5", ["C09"], "seeded/C09-5/patch.diff")
P("seed-C09-6", ["C09"], "seeded/C09-6/patch.diff")
P("seed-C10-6", ["C10"], "seeded/C10-6/patch.diff")
P("seed-C11-6", ["C11"], "seeded/C11-6/patch.diff")
P("seed-C12-5", ["C12"], "seeded/C12-5/patch.diff")
P("seed-C12-6", ["C12"], "seeded/C12-6/patch.diff")
P("seed-C13-5", ["C13"], "seeded/C13-5/patch.diff")
P("seed-C13-6", ["C13"], "seeded/C13-6/patch.diff")
P("seed-C14-5", ["C14"], "seeded/C14-5/patch.diff")
P("seed-C15-5", ["C15"], "seeded/C15-5/patch.diff")
P("seed-C15-6", ["C15"], "seeded/C15-6/patch.diff")
P("seed-C16-5", ["C16"], "seeded/C16-5/patch.diff")
P("seed-C17-5", ["C17"], "seeded/C17-5/patch.diff")
P("seed-C18-5", ["C18"], "seeded/C18-5/patch.diff")
P("seed-C18-6", ["C18"], "seeded/C18-6/patch.diff")
P("seed-C19-5", ["C19"], "seeded/C19-5/patch.diff")
P("seed-C20-5", ["C20"], "seeded/C20-5/patch.diff")
P("seed-C20-6", ["C20"], "seeded/C20-6/patch.diff")


# ------------------------------------------------------------------ round-5 seeds (those the property's own check reports)
P("seed-C01-8", ["C01"], "seeded/C01-8/patch.diff")
P("seed-C02-7", ["C02"], "seeded/C02-7/patch.diff")
P("seed-C02-8", ["C02"], "seeded/C02-8/patch.diff")
P("seed-C03-7", ["C03"], "seeded/C03-7/patch.diff")
P("seed-C03-8", ["C03"], "seeded/C03-8/patch.diff")
P("seed-C04-7", ["C04"], "seeded/C04-7/patch.diff")
P("seed-C04-8", ["C04"], "seeded/C04-8/patch.diff")
P("seed-C06-8", ["C06"], "seeded/C06-8/patch.diff")
P("seed-C07-7", ["C07"], "seeded/C07-7/patch.diff")
P("seed-C07-8", ["C07"], "seeded/C07-8/patch.diff")
P("seed-C08-7", ["C08"], "seeded/C08-7/patch.diff")
P("seed-C08-8", ["C08"], "seeded/C08-8/patch.diff")
P("seed-C09-7", ["C09"], "seeded/C09-7/patch.diff")
P("seed-C09-8", ["C09"], "seeded/C09-8/patch.diff")
P("seed-C10-7", ["C10"], "seeded/C10-7/patch.diff")
P("seed-C10-8", ["C10"], "seeded/C10-8/patch.diff")
P("seed-C11-7", ["C11"], "seeded/C11-7/patch.diff")
P("seed-C11-8", ["C11"], "seeded/C11-8/patch.diff")
P("seed-C12-7", ["C12"], "seeded/C12-7/patch.diff")
P("seed-C12-8", ["C12"], "seeded/C12-8/patch.diff")
P("seed-C13-7", ["C13"], "seeded/C13-7/patch.diff")
P("seed-C13-8", ["C13"], "seeded/C13-8/patch.diff")
P("seed-C14-7", ["C14"], "seeded/C14-7/patch.diff")
P("seed-C14-8", ["C14"], "seeded/C14-8/patch.diff")
P("seed-C15-7", ["C15"], "seeded/C15-7/patch.diff")
P("seed-C15-8", ["C15"], "seeded/C15-8/patch.diff")
P("seed-C16-7", ["C16"], "seeded/C16-7/patch.diff")
P("seed-C16-8", ["C16"], "seeded/C16-8/patch.diff")
P("seed-C17-7", ["C17"], "seeded/C17-7/patch.diff")
P("seed-C17-8", ["C17"], "seeded/C17-8/patch.diff")
P("seed-C18-7", ["C18"], "seeded/C18-7/patch.diff")
P("seed-C18-8", ["C18"], "seeded/C18-8/patch.diff")
P("seed-C19-7", ["C19"], "seeded/C19-7/patch.diff")
P("seed-C19-8", ["C19"], "seeded/C19-8/patch.diff")
P("seed-C20-7", ["C20"], "seeded/C20-7/patch.diff")
P("seed-C20-8", ["C20"], "seeded/C20-8/patch.diff")


# ------------------------------------------------------------------ round-6 seeds (those the property's own check reports)
P("seed-C01-10", ["C01"], "seeded/C01-10/patch.diff")
P("seed-C02-10", ["C02"], "seeded/C02-10/patch.diff")
P("seed-C03-9", ["C03"], "seeded/C03-9/patch.diff")
P("seed-C03-10", ["C03"], "seeded/C03-10/patch.diff")
P("seed-C04-9", ["C04"], "seeded/C04-9/patch.diff")
P("seed-C04-10", ["C04"], "seeded/C04-10/patch.diff")
P("seed-C09-9", ["C09"], "seeded/C09-9/patch.diff")
P("seed-C09-10", ["C09"], "seeded/C09-10/patch.diff")
P("seed-C10-9", ["C10"], "seeded/C10-9/patch.diff")
P("seed-C10-10", ["C10"], "seeded/C10-10/patch.diff")
P("seed-C11-9", ["C11"], "seeded/C11-9/patch.diff")
P("seed-C11-10", ["C11"], "seeded/C11-10/patch.diff")
P("seed-C12-9", ["C12"], "seeded/C12-9/patch.diff")
P("seed-C12-10", ["C12"], "seeded/C12-10/patch.diff")
P("seed-C14-9", ["C14"], "seeded/C14-9/patch.diff")
P("seed-C14-10", ["C14"], "seeded/C14-10/patch.diff")
P("seed-C16-9", ["C16"], "seeded/C16-9/patch.diff")
P("seed-C16-10", ["C16"], "seeded/C16-10/patch.diff")
P("seed-C17-9", ["C17"], "seeded/C17-9/patch.diff")
P("seed-C17-10", ["C17"], "seeded/C17-10/patch.diff")
P("seed-C19-9", ["C19"], "seeded/C19-9/patch.diff")
P("seed-C19-10", ["C19"], "seeded/C19-10/patch.diff")


# ------------------------------------------------------------------ round-7 seeds
P("seed-C06-9", ["C06"], "seeded/C06-9/patch.diff")
P("seed-C06-10", ["C06"], "seeded/C06-10/patch.diff")
P("seed-C07-9", ["C07"], "seeded/C07-9/patch.diff")
P("seed-C07-10", ["C07"], "seeded/C07-10/patch.diff")
P("seed-C08-9", ["C08"], "seeded/C08-9/patch.diff")
P("seed-C08-10", ["C08"], "seeded/C08-10/patch.diff")
P("seed-C13-9", ["C13"], "seeded/C13-9/patch.diff")
P("seed-C13-10", ["C13"], "seeded/C13-10/patch.diff")
P("seed-C15-9", ["C15"], "seeded/C15-9/patch.diff")
P("seed-C15-10", ["C15"], "seeded/C15-10/patch.diff")
P("seed-C18-9", ["C18"], "seeded/C18-9/patch.diff")
P("seed-C18-10", ["C18"], "seeded/C18-10/patch.diff")
P("seed-C20-9", ["C20"], "seeded/C20-9/patch.diff")
P("seed-C20-10", ["C20"], "seeded/C20-10/patch.diff")

# ------------------------------------------------------------------ backward party scan (R-C17-4 / R-C02-5 / R-C01-10)
_PL = ('                plaintiff = "".join(\n                    str(w) for w in words[max(index - 2, 0) : index]\n                ).lstrip("( ")\n'
       '                citation.metadata.plaintiff = plaintiff.rstrip("( ")\n                # the full span starts where the plaintiff starts\n'
       '                offset += len(plaintiff)\n')
P("seed-C17-2", ["C17"], "seeded/C17-2/patch.diff", rule="R-C17-4")
P("seed-C17-2-as-C02", ["C02"], "seeded/C17-2/patch.diff", rule="R-C02-5")
P("seed-C01-4", ["C01"], "seeded/C01-4/patch.diff", rule="R-C01-10")
B("backscan-stripped-plus-one", ["C17", "C02", "C01"], "helpers.py", _PL,
  '                citation.metadata.plaintiff = "".join(\n                    str(w) for w in words[max(index - 2, 0) : index]\n                ).strip("( ")\n'
  '                offset += len(citation.metadata.plaintiff) + 1\n')
B("backscan-forgets-stop-word", ["C17", "C02"], "helpers.py", "                offset -= len(word)\n", "                offset -= 1\n")
B("backscan-skips-comma-width", ["C17", "C02"], "helpers.py", "        word = words[index]\n        offset += len(word)\n        if word == \",\":\n            # Skip it\n            continue\n",
  "        word = words[index]\n        if word == \",\":\n            # Skip it\n            continue\n        offset += len(word)\n")
B("backscan-plaintiff-from-wider-run", ["C17"], "helpers.py", _PL,
  '                plaintiff = "".join(\n                    str(w) for w in words[max(index - 2, 0) : index]\n                ).lstrip("( ")\n'
  '                citation.metadata.plaintiff = "".join(str(w) for w in words[max(index - 4, 0) : index]).strip("( ")\n'
  '                offset += len(plaintiff)\n')
N("backscan-benign-map-join", ["C17", "C02", "C01"], "helpers.py", _PL,
  '                raw = "".join(map(str, words[max(index - 2, 0) : index]))\n                kept = raw.lstrip("( ")\n'
  '                citation.metadata.plaintiff = kept.rstrip("( ")\n                offset += len(kept)\n')
N("backscan-benign-strip-after-lstrip", ["C17", "C02", "C01"], "helpers.py", '                citation.metadata.plaintiff = plaintiff.rstrip("( ")\n',
  '                citation.metadata.plaintiff = plaintiff.strip("( ")\n')

# ------------------------------------------------------------------ round-8 seeds (all 38 reported by their own check; 25 at first contact)
P("seed-C01-11", ["C01"], "seeded/C01-11/patch.diff")
P("seed-C01-12", ["C01"], "seeded/C01-12/patch.diff")
P("seed-C02-11", ["C02"], "seeded/C02-11/patch.diff")
P("seed-C02-12", ["C02"], "seeded/C02-12/patch.diff")
P("seed-C03-11", ["C03"], "seeded/C03-11/patch.diff")
P("seed-C03-12", ["C03"], "seeded/C03-12/patch.diff")
P("seed-C04-11", ["C04"], "seeded/C04-11/patch.diff")
P("seed-C04-12", ["C04"], "seeded/C04-12/patch.diff")
P("seed-C06-11", ["C06"], "seeded/C06-11/patch.diff")
P("seed-C06-12", ["C06"], "seeded/C06-12/patch.diff")
P("seed-C07-11", ["C07"], "seeded/C07-11/patch.diff")
P("seed-C07-12", ["C07"], "seeded/C07-12/patch.diff")
P("seed-C08-11", ["C08"], "seeded/C08-11/patch.diff")
P("seed-C08-12", ["C08"], "seeded/C08-12/patch.diff")
P("seed-C09-11", ["C09"], "seeded/C09-11/patch.diff")
P("seed-C09-12", ["C09"], "seeded/C09-12/patch.diff")
P("seed-C10-11", ["C10"], "seeded/C10-11/patch.diff")
P("seed-C10-12", ["C10"], "seeded/C10-12/patch.diff")
P("seed-C11-11", ["C11"], "seeded/C11-11/patch.diff")
P("seed-C11-12", ["C11"], "seeded/C11-12/patch.diff")
P("seed-C12-11", ["C12"], "seeded/C12-11/patch.diff")
P("seed-C12-12", ["C12"], "seeded/C12-12/patch.diff")
P("seed-C13-11", ["C13"], "seeded/C13-11/patch.diff")
P("seed-C13-12", ["C13"], "seeded/C13-12/patch.diff")
P("seed-C14-11", ["C14"], "seeded/C14-11/patch.diff")
P("seed-C14-12", ["C14"], "seeded/C14-12/patch.diff")
P("seed-C15-11", ["C15"], "seeded/C15-11/patch.diff")
P("seed-C15-12", ["C15"], "seeded/C15-12/patch.diff")
P("seed-C16-11", ["C16"], "seeded/C16-11/patch.diff")
P("seed-C16-12", ["C16"], "seeded/C16-12/patch.diff")
P("seed-C17-11", ["C17"], "seeded/C17-11/patch.diff")
P("seed-C17-12", ["C17"], "seeded/C17-12/patch.diff")
P("seed-C18-11", ["C18"], "seeded/C18-11/patch.diff")
P("seed-C18-12", ["C18"], "seeded/C18-12/patch.diff")
P("seed-C19-11", ["C19"], "seeded/C19-11/patch.diff")
P("seed-C19-12", ["C19"], "seeded/C19-12/patch.diff")
P("seed-C20-11", ["C20"], "seeded/C20-11/patch.diff")
P("seed-C20-12", ["C20"], "seeded/C20-12/patch.diff")

# ------------------------------------------------------------------ round-8 rules: own variants
B("c10-table-delete-points-back", ["C10"], "annotate.py", "partial(replace_offset, new_offset=offset + delta)", "partial(replace_offset, new_offset=offset + delta - 1)", rule="C10-R12")
B("c10-table-insert-moves-back", ["C10"], "annotate.py", "                # push the delta forward\n                delta += amount\n",
  "                # push the delta forward\n                delta -= amount\n", rule="C10-R12")
B("c10-table-shift-doubles", ["C10"], "annotate.py", "            return offset + delta\n", "            return offset + offset + delta\n", rule="C10-R12")
B("c10-difflib-autojunk", ["C10"], "annotate.py", "SequenceMatcher(a=a, b=b, autojunk=False)", "SequenceMatcher(a=a, b=b)", rule="C10-R5")
N("c10-table-benign-keyword-order", ["C10", "C15", "C09"], "annotate.py", "                updaters.append(partial(shift_offset, delta=delta))\n                offset += amount\n",
  "                updaters.append(partial(shift_offset, delta=delta + 0))\n                offset = offset + amount\n")
B("c14-callback-skips-empty", ["C14"], "tokenizers.py", "            matches.append((self.extractors[index], (start, end)))\n",
  "            if end > start + 1:\n                matches.append((self.extractors[index], (start, end)))\n", rule="R-C14-1")
B("c15-cache-key-without-flags", ["C15"], "tokenizers.py", "                    str(expressions).encode(\"utf8\") + str(flags).encode(\"utf8\")\n",
  "                    str(expressions).encode(\"utf8\")\n", rule="R-C15-7")
B("c04-index-into-stripped-name", ["C04"], "resolve.py", "    ag: str = strip_punct(antecedent_guess)\n", "    ag: str = strip_punct(antecedent_guess)\n    if ag[-1] == \"s\":\n        ag = ag[:-1]\n", rule="T6")
B("c04-regex-on-token", ["C04"], "helpers.py", "        if word.endswith(\";\"):\n", "        if word.endswith(\";\") and not re.match(r\"&\\w+;$\", word):\n", rule="T12")
N("c04-regex-on-str-of-token", ["C04"], "helpers.py", "        if word.endswith(\";\"):\n", "        if word.endswith(\";\") and not re.match(r\"&\\w+;$\", str(word)):\n")
B("c01-page-takes-space", ["C01"], "regexes.py", 'PAGE_NUMBER_REGEX = rf"(?:\\d+|{ROMAN_NUMERAL_REGEX}|_+)"', 'PAGE_NUMBER_REGEX = rf"(?:\\d+(?: \\d{{3}})*|{ROMAN_NUMERAL_REGEX}|_+)"', rule="R-C01-13")
B("c16-page-star-placeholder", ["C16"], "regexes.py", 'PAGE_NUMBER_REGEX = rf"(?:\\d+|{ROMAN_NUMERAL_REGEX}|_+)"', 'PAGE_NUMBER_REGEX = rf"(?:\\d+|{ROMAN_NUMERAL_REGEX}|_+|\\*+)"', rule="R-C16-8")
N2("c16-page-star-placeholder-normalised", ["C16", "C06", "C07"], [("regexes.py", 'PAGE_NUMBER_REGEX = rf"(?:\\d+|{ROMAN_NUMERAL_REGEX}|_+)"', 'PAGE_NUMBER_REGEX = rf"(?:\\d+|{ROMAN_NUMERAL_REGEX}|_+|\\*+)"'),
    ("models.py", 're.search("^_+$", self.groups.get("page", "") or "")', 're.search(r"^(?:_+|\\*+)$", self.groups.get("page", "") or "")')])
B("c19-reference-on-court", ["C19"], "models.py", '        "resolved_case_name",\n    ]\n', '        "resolved_case_name",\n        "court",\n    ]\n', rule="R-C19-9")
B("c02-pin-cite-from-second-search", ["C02"], "helpers.py", '    citation.metadata.extra = (m["extra"] or "").strip() or None\n',
  '    citation.metadata.extra = (m["extra"] or "").strip() or None\n    m2 = re.search(r"(?P<pin_cite>at \\d+)", m["extra"] or "")\n    if m2 and not citation.metadata.pin_cite:\n        citation.metadata.pin_cite = m2["pin_cite"]\n',
  rule="R-C02-8")

# lazily initialised module variables (R-C15-6 without the decorator)
_GY = "def get_year(word: str) -> Optional[int]:\n"
N("c15-lazy-global-constant-table", ["C15", "C04", "C18"], "helpers.py", _GY,
  "_MONTHS = None\n\n\ndef _months():\n    global _MONTHS\n    if _MONTHS is None:\n        _MONTHS = tuple(m.lower() for m in (\"Jan\", \"Feb\", \"Mar\"))\n    return _MONTHS\n\n\n" + _GY)
B("c15-lazy-global-clock", ["C15"], "helpers.py", "    if year < 1600 or year > _highest_valid_year:\n",
  "    if year < 1600 or year > _this_year() + 1:\n", rule=None)
VARIANTS[-1]["edits"].append({"file": "helpers.py", "old": _GY,
    "new": "_THIS_YEAR = None\n\n\ndef _this_year():\n    global _THIS_YEAR\n    if _THIS_YEAR is None:\n        _THIS_YEAR = date.today().year\n    return _THIS_YEAR\n\n\n" + _GY})
B("c15-lazy-global-mutated-by-caller", ["C15"], "helpers.py", "    if year < 1600 or year > _highest_valid_year:\n",
  "    seen = _seen_years()\n    seen.append(year)\n    if year < 1600 or year > _highest_valid_year:\n", rule=None)
VARIANTS[-1]["edits"].append({"file": "helpers.py", "old": _GY,
    "new": "_SEEN = None\n\n\ndef _seen_years():\n    global _SEEN\n    if _SEEN is None:\n        _SEEN = []\n    return _SEEN\n\n\n" + _GY})

# ------------------------------------------------------------------ round-9 seeds (24; 11 at first contact, 24 after the rules of DESIGN 7.9)
P("seed-C01-13", ["C01"], "seeded/C01-13/patch.diff")
P("seed-C01-14", ["C01"], "seeded/C01-14/patch.diff")
P("seed-C02-13", ["C02"], "seeded/C02-13/patch.diff")
P("seed-C02-14", ["C02"], "seeded/C02-14/patch.diff")
P("seed-C04-13", ["C04"], "seeded/C04-13/patch.diff")
P("seed-C04-14", ["C04"], "seeded/C04-14/patch.diff")
P("seed-C09-13", ["C09"], "seeded/C09-13/patch.diff")
P("seed-C09-14", ["C09"], "seeded/C09-14/patch.diff")
P("seed-C10-13", ["C10"], "seeded/C10-13/patch.diff")
P("seed-C10-14", ["C10"], "seeded/C10-14/patch.diff")
P("seed-C11-13", ["C11"], "seeded/C11-13/patch.diff")
P("seed-C11-14", ["C11"], "seeded/C11-14/patch.diff")
P("seed-C12-13", ["C12"], "seeded/C12-13/patch.diff")
P("seed-C12-14", ["C12"], "seeded/C12-14/patch.diff")
P("seed-C14-13", ["C14"], "seeded/C14-13/patch.diff")
P("seed-C14-14", ["C14"], "seeded/C14-14/patch.diff")
P("seed-C15-13", ["C15"], "seeded/C15-13/patch.diff")
P("seed-C15-14", ["C15"], "seeded/C15-14/patch.diff")
P("seed-C16-13", ["C16"], "seeded/C16-13/patch.diff")
P("seed-C16-14", ["C16"], "seeded/C16-14/patch.diff")
P("seed-C17-13", ["C17"], "seeded/C17-13/patch.diff")
P("seed-C17-14", ["C17"], "seeded/C17-14/patch.diff")
P("seed-C20-13", ["C20"], "seeded/C20-13/patch.diff")
P("seed-C20-14", ["C20"], "seeded/C20-14/patch.diff")

# ------------------------------------------------------------------ round-9 rules: own variants
_SW = '            if word.groups["stop_word"] == "v" and index > 0:\n'
_BS = "BACKWARD_SEEK = 28  # Median case name length in the CL db is 28 (2016-02-26)\n"
B2("c04-constant-table-unguarded", ["C04"], [("helpers.py", _BS, _BS + '_VERSUS = {"v": True}\n'),
    ("helpers.py", _SW, '            if _VERSUS[word.groups["stop_word"].lower()] and index > 0:\n')], rule="T13")
N2("c04-constant-table-guarded", ["C04", "C01", "C17"], [("helpers.py", _BS, _BS + '_VERSUS = {"v": True}\n'),
    ("helpers.py", _SW, '            if word.groups["stop_word"] in _VERSUS and _VERSUS[word.groups["stop_word"]] and index > 0:\n')])
B("c10-steps-replace-loses-insertion", ["C10", "C11"], "annotate.py", '                yield "-", a2 - a1\n                yield "+", b2 - b1\n', '                yield "-", a2 - a1\n', rule="C10-R13")
B("c10-steps-delete-as-equal", ["C10", "C11"], "annotate.py", '            elif operation == "delete":\n                yield "-", a2 - a1\n',
  '            elif operation == "delete":\n                yield "=", a2 - a1\n', rule="C10-R13")
B("c10-steps-equal-branch-dropped", ["C10", "C11"], "annotate.py", '            elif operation == "equal":\n                yield "=", a2 - a1\n', '', rule="C10-R13")
N("c10-steps-equal-by-b-extent", ["C10", "C11", "C09"], "annotate.py", '            elif operation == "equal":\n                yield "=", a2 - a1\n',
  '            elif operation == "equal":\n                yield "=", b2 - b1\n')
N("c16-text-normalisation-through-corrected-reporter", ["C16", "C06", "C18"], "models.py",
  '                self.groups.get("reporter"), self.edition_guess.short_name\n', '                self.groups.get("reporter"), self.corrected_reporter()\n')
B("c16-text-normalisation-first-candidate", ["C16"], "models.py",
  '        if self.edition_guess:\n            corrected = corrected.replace(\n                self.groups.get("reporter"), self.edition_guess.short_name\n            )\n',
  '        if self.edition_guess or self.exact_editions:\n            corrected = corrected.replace(\n                self.groups.get("reporter"), (self.edition_guess or self.exact_editions[0]).short_name\n            )\n', rule="R-C16-9")
B("c14-converter-early-return", ["C14"], "tokenizers.py", "                # hyperscan doesn't understand repetition flags like {,3},\n",
  "                if \"{\" not in regex and regex.isascii():\n                    return regex.encode(\"utf8\")\n                if regex.startswith(\"(?:^|\"):\n                    return regex.encode(\"utf8\")\n                # hyperscan doesn't understand repetition flags like {,3},\n", rule="R-C14-8")
B("c17-short-form-takes-following-year", ["C17"], "find.py", "    citation.guess_edition()\n    citation.guess_court()\n    return citation\n\n\ndef _extract_supra_citation(",
  "    citation.guess_edition()\n    m2 = match_on_tokens(words, index + 1, r\"\\ ?\\((?P<year>\\d{4})\\)\", strings_only=True)\n    if m2:\n        citation.metadata.year = m2[\"year\"]\n    citation.guess_court()\n    return citation\n\n\ndef _extract_supra_citation(", rule="R-C17-2")

# ------------------------------------------------------------------ round-10 seeds (14; 12 at first contact, 14 after O8 fold frame and R-C03-1 filter shape)
P("seed-C03-13", ["C03"], "seeded/C03-13/patch.diff")
P("seed-C03-14", ["C03"], "seeded/C03-14/patch.diff")
P("seed-C06-13", ["C06"], "seeded/C06-13/patch.diff")
P("seed-C06-14", ["C06"], "seeded/C06-14/patch.diff")
P("seed-C07-13", ["C07"], "seeded/C07-13/patch.diff")
P("seed-C07-14", ["C07"], "seeded/C07-14/patch.diff")
P("seed-C08-13", ["C08"], "seeded/C08-13/patch.diff")
P("seed-C08-14", ["C08"], "seeded/C08-14/patch.diff")
P("seed-C13-13", ["C13"], "seeded/C13-13/patch.diff")
P("seed-C13-14", ["C13"], "seeded/C13-14/patch.diff")
P("seed-C18-13", ["C18"], "seeded/C18-13/patch.diff")
P("seed-C18-14", ["C18"], "seeded/C18-14/patch.diff")
P("seed-C19-13", ["C19"], "seeded/C19-13/patch.diff")
P("seed-C19-14", ["C19"], "seeded/C19-14/patch.diff")

# ------------------------------------------------------------------ round-11 seeds (38; 23 at first contact, 34 after the rules of DESIGN 7.11;
# C01-15, C01-16 are value-level and stay unreported, C03-15 is reported by C12)
P("seed-C02-15", ["C02"], "seeded/C02-15/patch.diff")
P("seed-C02-16", ["C02"], "seeded/C02-16/patch.diff")
P("seed-C03-16", ["C03"], "seeded/C03-16/patch.diff")
P("seed-C04-15", ["C04"], "seeded/C04-15/patch.diff")
P("seed-C04-16", ["C04"], "seeded/C04-16/patch.diff")
P("seed-C06-15", ["C06"], "seeded/C06-15/patch.diff")
P("seed-C06-16", ["C06"], "seeded/C06-16/patch.diff")
P("seed-C07-15", ["C07"], "seeded/C07-15/patch.diff")
P("seed-C07-16", ["C07"], "seeded/C07-16/patch.diff")
P("seed-C08-15", ["C08"], "seeded/C08-15/patch.diff")
P("seed-C08-16", ["C08"], "seeded/C08-16/patch.diff")
P("seed-C09-15", ["C09"], "seeded/C09-15/patch.diff")
P("seed-C09-16", ["C09"], "seeded/C09-16/patch.diff")
P("seed-C10-15", ["C10"], "seeded/C10-15/patch.diff")
P("seed-C10-16", ["C10"], "seeded/C10-16/patch.diff")
P("seed-C11-15", ["C11"], "seeded/C11-15/patch.diff")
P("seed-C11-16", ["C11"], "seeded/C11-16/patch.diff")
P("seed-C12-15", ["C12"], "seeded/C12-15/patch.diff")
P("seed-C12-16", ["C12"], "seeded/C12-16/patch.diff")
P("seed-C13-15", ["C13"], "seeded/C13-15/patch.diff")
P("seed-C13-16", ["C13"], "seeded/C13-16/patch.diff")
P("seed-C14-15", ["C14"], "seeded/C14-15/patch.diff")
P("seed-C14-16", ["C14"], "seeded/C14-16/patch.diff")
P("seed-C15-15", ["C15"], "seeded/C15-15/patch.diff")
P("seed-C15-16", ["C15"], "seeded/C15-16/patch.diff")
P("seed-C16-15", ["C16"], "seeded/C16-15/patch.diff")
P("seed-C16-16", ["C16"], "seeded/C16-16/patch.diff")
P("seed-C17-15", ["C17"], "seeded/C17-15/patch.diff")
P("seed-C17-16", ["C17"], "seeded/C17-16/patch.diff")
P("seed-C18-15", ["C18"], "seeded/C18-15/patch.diff")
P("seed-C18-16", ["C18"], "seeded/C18-16/patch.diff")
P("seed-C19-15", ["C19"], "seeded/C19-15/patch.diff")
P("seed-C19-16", ["C19"], "seeded/C19-16/patch.diff")
P("seed-C20-15", ["C20"], "seeded/C20-15/patch.diff")
P("seed-C20-16", ["C20"], "seeded/C20-16/patch.diff")

# ------------------------------------------------------------------ round-12 seeds (20; 12 at first contact, 17 after the rules of DESIGN 7.12;
# C01-17 is reported by C02 and C17, C01-18 and C17-17 are value-level)
P("seed-C02-17", ["C02"], "seeded/C02-17/patch.diff")
P("seed-C02-18", ["C02"], "seeded/C02-18/patch.diff")
P("seed-C03-17", ["C03"], "seeded/C03-17/patch.diff")
P("seed-C03-18", ["C03"], "seeded/C03-18/patch.diff")
P("seed-C06-17", ["C06"], "seeded/C06-17/patch.diff")
P("seed-C06-18", ["C06"], "seeded/C06-18/patch.diff")
P("seed-C07-17", ["C07"], "seeded/C07-17/patch.diff")
P("seed-C07-18", ["C07"], "seeded/C07-18/patch.diff")
P("seed-C10-17", ["C10"], "seeded/C10-17/patch.diff")
P("seed-C10-18", ["C10"], "seeded/C10-18/patch.diff")
P("seed-C11-17", ["C11"], "seeded/C11-17/patch.diff")
P("seed-C11-18", ["C11"], "seeded/C11-18/patch.diff")
P("seed-C15-17", ["C15"], "seeded/C15-17/patch.diff")
P("seed-C15-18", ["C15"], "seeded/C15-18/patch.diff")
P("seed-C16-17", ["C16"], "seeded/C16-17/patch.diff")
P("seed-C16-18", ["C16"], "seeded/C16-18/patch.diff")
P("seed-C17-18", ["C17"], "seeded/C17-18/patch.diff")
# round 13 (DESIGN 7.15): seeds reported by their own property's check (C14-17/18, C17-19/20, C01-19, C04-18 are open; C07-20 and C04-17 end in exit 2)
P("seed-C02-19", ["C02"], "seeded/C02-19/patch.diff", rule="R-C02-5")
P("seed-C02-20", ["C02"], "seeded/C02-20/patch.diff", rule="R-C02-10")
P("seed-C07-19", ["C07"], "seeded/C07-19/patch.diff", rule="R-C07-2")
P("seed-C08-17", ["C08"], "seeded/C08-17/patch.diff")
P("seed-C08-18", ["C08"], "seeded/C08-18/patch.diff", rule="O2")
P("seed-C09-17", ["C09"], "seeded/C09-17/patch.diff")
P("seed-C09-18", ["C09"], "seeded/C09-18/patch.diff")
P("seed-C10-19", ["C10"], "seeded/C10-19/patch.diff", rule="C10-R14")
P("seed-C10-20", ["C10"], "seeded/C10-20/patch.diff", rule="C10-R14")
P("seed-C11-19", ["C11"], "seeded/C11-19/patch.diff", rule="C10-R9")
P("seed-C11-20", ["C11"], "seeded/C11-20/patch.diff", rule="C11-R5")
P("seed-C13-17", ["C13"], "seeded/C13-17/patch.diff", rule="R-C13-4")
P("seed-C13-18", ["C13"], "seeded/C13-18/patch.diff", rule="R-C13-5")
P("seed-C18-17", ["C18"], "seeded/C18-17/patch.diff", rule="R-C18-4")
P("seed-C18-18", ["C18"], "seeded/C18-18/patch.diff", rule="R-C18-1")
P("seed-C19-17", ["C19"], "seeded/C19-17/patch.diff", rule="R-C19-4")
P("seed-C19-18", ["C19"], "seeded/C19-18/patch.diff", rule="R-C19-4")
P("seed-C20-17", ["C20"], "seeded/C20-17/patch.diff", rule="R-C20-5")
P("seed-C20-18", ["C20"], "seeded/C20-18/patch.diff")
P("seed-C01-19", ["C02"], "seeded/C01-19/patch.diff", rule="R-C02-13")
P("seed-C06-19", ["C06"], "seeded/C06-19/patch.diff")
P("seed-C06-20", ["C06"], "seeded/C06-20/patch.diff", rule="O6")
P("seed-C15-19", ["C15"], "seeded/C15-19/patch.diff", rule="R-C15-3")
P("seed-C15-20", ["C15"], "seeded/C15-20/patch.diff", rule="R-C15-1")
P("seed-C16-19", ["C16"], "seeded/C16-19/patch.diff", rule="R-C16-H0")
P("seed-C14-17", ["C14"], "seeded/C14-17/patch.diff", rule="R-C14-2")
P("seed-C14-18", ["C14"], "seeded/C14-18/patch.diff", rule="R-C14-9")
P("seed-C12-17", ["C12"], "seeded/C12-17/patch.diff", rule="C12-R6")
P("seed-C17-19", ["C17"], "seeded/C17-19/patch.diff", rule="R-C17-1")
P("seed-C03-20", ["C03"], "seeded/C03-20/patch.diff", rule="R-C03-2")
B("c03-overlap-one-sided", ["C03"], "helpers.py", "    return max(start_1, start_2) < min(end_1, end_2)\n", "    return start_1 <= start_2 < end_1\n", rule="R-C03-10")
N("c03-overlap-two-comparisons", ["C03", "C19"], "helpers.py", "    return max(start_1, start_2) < min(end_1, end_2)\n", "    return start_1 < end_2 and start_2 < end_1\n")

# ------------------------------------------------------------------ generated whole-package benign rewrites (every property)
for _g in ("reformat", "logging", "rename-locals"):
    VARIANTS.append({"id": f"gen-{_g}", "kind": "benign", "props": ["*"], "gen": _g})

# ------------------------------------------------------------------ agent-made behaviour-preserving refactorings (benign/, every property)
# not listed (reported as violations of a structural rule although behaviour is unchanged -- see benign/KNOWN-LIMITS.md):
#   r2-annotate-4, r2-find-1, r2-helpers-3, r2-resolve-2, r2-tokenizers-4
import glob as _glob
import os as _os

# Patches of the benign corpus that some check still reports (benign/KNOWN-LIMITS.md): they are not part of the self-validation.
# r1/r2/r4 = refactorings and code motion, r3 = maintenance commits (all silent), r5 = feature / fix commits that change behaviour but
# keep every property, r6 = the same aimed at the core algorithms (where a shape-based prover has least to hold on to)
_SKIP = {"r2-helpers-3", "r2-resolve-2"}
_SKIP |= {"r4-annotate-2", "r4-find-4", "r4-helpers-3", "r4-resolve-4"}
_SKIP |= {"r5-annotate-3", "r5-tokenizers-1", "r5-tokenizers-2", "r5-tokenizers-3"}
_SKIP |= {"r6-annotate-2", "r6-annotate-3", "r6-clean-1", "r6-clean-3", "r6-find-3", "r6-helpers-1", "r6-helpers-3", "r6-models-1", "r6-resolve-1", "r6-resolve-3", "r6-tokenizers-2", "r6-tokenizers-3", "r6-utils-1", "r6-utils-3"}
# r7 = feature / fix commits aimed at the areas of the round-8 rules (none of the new rules fires on them; the reports come from older rules)
_SKIP |= {"r7-resolve-2", "r7-tokenizers-1", "r7-tokenizers-2", "r7-utils-3"}
# r8 = second batch aimed at the rule areas of rounds 8-9; the reported ones repeat earlier known limits (accumulator, atomic cache write, hit realignment,
# find/rfind balancer, multi-word markup names, prefix/suffix trimming before difflib, a different trimming algorithm for the full span)
_SKIP |= {"r8-annotate-2", "r8-helpers-2", "r8-resolve-2", "r8-utils-2", "r8-tokenizers-1", "r8-tokenizers-3"}
for _f in sorted(_glob.glob(_os.path.join(_os.path.dirname(_os.path.dirname(__file__)), "benign", "*.diff"))):
    _n = _os.path.basename(_f)[:-5]
    if _n not in _SKIP:
        VARIANTS.append({"id": f"benign-{_n}", "kind": "benign", "props": ["*"], "patch": f"benign/{_n}.diff"})
