"""A small symbolic evaluator for accessor-like functions: given which of a few
Optional expressions are present (not None), find the path the function takes
and what it returns, with locals replaced by what they hold on that path.

Used to compare *what a function computes* rather than how it is written:
`return (a if a is not None else b, ...)` and `x = a; if x is None: x = b; ...;
return (x, ...)` evaluate to the same result under every assignment.
"""
from __future__ import annotations

from .core import acopy
import ast
import copy
import itertools
from typing import Dict, List, Optional

from .core import norm, presence_test
from .paths import enumerate_paths


class _Subst(ast.NodeTransformer):
    def __init__(self, env: Dict[str, ast.AST]):
        self.env = env

    def visit_Name(self, node: ast.Name):
        if isinstance(node.ctx, ast.Load) and node.id in self.env:
            return acopy(self.env[node.id])
        return node

    def visit_Lambda(self, node):
        return node


def _subst(e: ast.AST, env: Dict[str, ast.AST]) -> ast.AST:
    return _Subst(env).visit(acopy(e))


def _decide(c: ast.AST, atoms: Dict[str, bool]) -> Optional[bool]:
    if isinstance(c, ast.BoolOp):
        vals = [_decide(v, atoms) for v in c.values]
        if isinstance(c.op, ast.And):
            if any(v is False for v in vals):
                return False
            return None if any(v is None for v in vals) else True
        if any(v is True for v in vals):
            return True
        return None if any(v is None for v in vals) else False
    if isinstance(c, ast.UnaryOp) and isinstance(c.op, ast.Not):
        v = _decide(c.operand, atoms)
        return None if v is None else not v
    if isinstance(c, ast.Compare) and len(c.ops) == 1 and isinstance(c.comparators[0], ast.Constant) and c.comparators[0].value is None \
            and isinstance(c.ops[0], (ast.Is, ast.IsNot, ast.Eq, ast.NotEq)):
        t = norm(c.left)
        if t in atoms:
            return (not atoms[t]) if isinstance(c.ops[0], (ast.Is, ast.Eq)) else atoms[t]
    return None


class _Simplify(ast.NodeTransformer):
    def __init__(self, atoms):
        self.atoms = atoms

    def visit_IfExp(self, node: ast.IfExp):
        self.generic_visit(node)
        d = _decide(node.test, self.atoms)
        if d is True:
            return node.body
        if d is False:
            return node.orelse
        return node


def evaluate(fn: ast.FunctionDef, atoms: Dict[str, bool]) -> Optional[ast.AST]:
    """the value fn returns when the given expressions are (not) None; None if no single path can be determined"""
    results = []
    for p in enumerate_paths(fn.body):
        if p.exit != "return":
            continue
        env: Dict[str, ast.AST] = {}
        ok = True
        for ev in p.events:
            if ev[0] == "stmt" and isinstance(ev[1], ast.Assign) and len(ev[1].targets) == 1 and isinstance(ev[1].targets[0], ast.Name):
                env[ev[1].targets[0].id] = _Simplify(atoms).visit(_subst(ev[1].value, env))
            elif ev[0] == "stmt" and isinstance(ev[1], (ast.Assign, ast.AugAssign, ast.AnnAssign)):
                return None
            elif ev[0] == "cond":
                d = _decide(_subst(ev[1], env), atoms)
                if d is None:
                    return None
                if d != ev[2]:
                    ok = False
                    break
            elif ev[0] in ("loop", "with", "except"):
                return None
        if ok:
            rv = p.exit_node.value
            results.append(_Simplify(atoms).visit(_subst(rv, env)) if rv is not None else ast.Constant(value=None))
    if len(results) != 1:
        return None
    return results[0]


def fallback_accessor(fn: ast.FunctionDef, pairs: List[tuple]) -> bool:
    """fn returns the tuple whose i-th component is pairs[i][0] when that is not None, else pairs[i][1] (expression texts)"""
    overrides = [a for a, _ in pairs]
    for combo in itertools.product([False, True], repeat=len(pairs)):
        atoms = dict(zip(overrides, combo))
        r = evaluate(fn, atoms)
        if not (isinstance(r, ast.Tuple) and len(r.elts) == len(pairs)):
            return False
        for (a, b), present, e in zip(pairs, combo, r.elts):
            if norm(e) != (a if present else b):
                return False
    return True
