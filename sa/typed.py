"""The type-checked program: one mypy build of /repo/eyecite (mypy is part of
the repository's own dev environment), exported as a position-keyed table of
expression types.  Used for receiver types of method calls, set-typed
expressions and Optional-typed operands.  If mypy cannot be imported or the
build crashes the run is an ANALYSIS-ERROR, never a silent pass.
"""
from __future__ import annotations

import ast
import os
from pathlib import Path
from typing import Dict, Optional, Tuple

from .core import AnalysisError, Module

_CACHE: Dict[str, "Typed"] = {}
# attributes of mypy nodes that point at *referenced* definitions (possibly in other files), not at children
REFERENCE_ATTRS = {"node", "info", "defn", "original_def", "def_var", "impl_type", "unanalyzed_type", "type", "var_type"}


class Typed:
    def __init__(self, root: Path):
        try:
            from mypy import build
            from mypy.find_sources import create_source_list
            from mypy.options import Options
            import mypy.nodes as N
        except Exception as e:  # noqa: BLE001
            raise AnalysisError(f"mypy (the repository's own dev dependency) cannot be imported: {e}")
        opts = Options()
        opts.preserve_asts = True
        opts.export_types = True
        opts.incremental = False
        opts.cache_dir = os.devnull
        opts.ignore_missing_imports = True
        opts.check_untyped_defs = True
        opts.follow_imports = "silent"
        opts.show_traceback = False
        cwd = os.getcwd()
        try:
            os.chdir(root)
            src = create_source_list(["eyecite"], opts)
            res = build.build(src, opts)
        except Exception as e:  # noqa: BLE001
            raise AnalysisError(f"mypy build failed: {type(e).__name__}: {e}")
        finally:
            os.chdir(cwd)
        self.n_errors = len(res.errors)
        self.table: Dict[Tuple[str, int, int, int, int], str] = {}
        self.member_full: Dict[Tuple[str, int, int, int, int], str] = {}
        # map expression -> module by walking each file's tree
        mods = {name: f for name, f in res.files.items() if name.startswith("eyecite")}
        owner: Dict[int, str] = {}
        for name, f in mods.items():
            short = name.split(".")[-1] if "." in name else "__init__"
            stack = list(f.defs)
            seen = set()
            while stack:
                node = stack.pop()
                if id(node) in seen:
                    continue
                seen.add(id(node))
                owner[id(node)] = short
                for attr in dir(type(node)):
                    if attr.startswith("_") or attr in REFERENCE_ATTRS:
                        continue
                    try:
                        v = getattr(node, attr)
                    except Exception:  # noqa: BLE001
                        continue
                    if isinstance(v, N.Node):
                        stack.append(v)
                    elif isinstance(v, (list, tuple)):
                        for x in v:
                            if isinstance(x, N.Node):
                                stack.append(x)
                            elif isinstance(x, (list, tuple)):
                                for y in x:
                                    if isinstance(y, N.Node):
                                        stack.append(y)
        n = 0
        for e, ty in res.types.items():
            m = owner.get(id(e))
            if m is None or getattr(e, "end_line", None) is None:
                continue
            key = (m, e.line, e.column, e.end_line, e.end_column)
            self.table[key] = str(ty)
            if isinstance(e, (N.MemberExpr, N.NameExpr)) and getattr(e, "fullname", None):
                self.member_full[key] = e.fullname
            n += 1
        self.n_typed = n

    @staticmethod
    def get(root: Path | str) -> "Typed":
        k = str(Path(root).resolve())
        if k not in _CACHE:
            _CACHE[k] = Typed(Path(k))
        return _CACHE[k]

    def type_of(self, mod: Module | str, node: ast.AST) -> Optional[str]:
        name = getattr(node, "_tmod", None) or (mod if isinstance(mod, str) else mod.name)  # _tmod: function analysed in another module than it is written in
        tp = getattr(node, "_tpos", None)  # code moved by the inliner keeps its original position for type look-ups
        if tp is not None and tp[2] is not None:
            return self.table.get((name,) + tuple(tp))
        if getattr(node, "end_lineno", None) is None:
            return None
        return self.table.get((name, node.lineno, node.col_offset, node.end_lineno, node.end_col_offset))

    def fullname_of(self, mod: Module | str, node: ast.AST) -> Optional[str]:
        name = getattr(node, "_tmod", None) or (mod if isinstance(mod, str) else mod.name)
        tp = getattr(node, "_tpos", None)
        if tp is not None and tp[2] is not None:
            return self.member_full.get((name,) + tuple(tp))
        if getattr(node, "end_lineno", None) is None:
            return None
        return self.member_full.get((name, node.lineno, node.col_offset, node.end_lineno, node.end_col_offset))


def strip_optional(t: str) -> str:
    for suf in (" | None", "None | "):
        t = t.replace(suf, "")
    if t.startswith("Union[") and ", None]" in t:
        t = t[len("Union["):].replace(", None]", "")
    return t.strip()


def eyecite_class(t: Optional[str]) -> Optional[str]:
    """'eyecite.models.FullCaseCitation' -> 'FullCaseCitation' (also through
    Optional / type[...])"""
    if not t:
        return None
    t = strip_optional(t)
    if t.startswith("type[") and t.endswith("]"):
        t = t[5:-1]
    if t.startswith("eyecite.") and "[" not in t and " " not in t:
        return t.split(".")[-1]
    return None


def is_set_type(t: Optional[str]) -> bool:
    if not t:
        return False
    t = strip_optional(t)
    return t.startswith(("builtins.set[", "builtins.frozenset[", "set[", "frozenset[", "typing.Set[", "typing.AbstractSet[", "typing.FrozenSet["))


def is_optional(t: Optional[str]) -> bool:
    return bool(t) and ("None" in t.split(" | ") or t.startswith("Union[") and "None" in t)
