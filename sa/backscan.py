"""Length accounting of the backward party-name scan (helpers.add_defendant).

The scan walks `words[index]` for index = C.index-1, C.index-2, ... and keeps a
running `offset`; at the end `C.full_span_start = C.span()[0] - offset`.  The
words list is a gap-free decomposition of the text (tokenizer rules T*/P* of
C12/C03: every character belongs to exactly one word or token and
len(str(w)) is its width), so the start is *exact* iff `offset` is, on every
path, the summed width of a contiguous run of words ending at the citation --
possibly shortened by what a *left* trim removed from the first word (then it
is the exact position of the first kept character).

The rule interprets one loop iteration symbolically.  Abstract value of
`offset` = the position it denotes:
    ("word", k)        start of words[index + k]           (k = 0 or 1)
    ("seg", lo, cs)    first character of join(words[lo:index]) not in cs
    ("bad", reason)    anything else, e.g. len(<two-side-trimmed string>) + 1,
                       which is right only if exactly one trailing character
                       was removed -- a statement about the *text*, false for
                       "Foo( v. Bar" or "\tv. Bar" (start lands inside / before
                       the word, possibly at -1)
Induction: before an iteration offset = ("word", 1); an iteration that falls
through or continues must leave ("word", 0), which is ("word", 1) for the next
index.  A `break` hands its value to the store after the loop.
"""
from __future__ import annotations

import ast
from typing import Dict, List, Optional, Tuple

from .core import Ctx, dotted, norm, stmts_local, walk_local
from .paths import enumerate_paths


class Seg:
    """''.join(str(w) for w in WORDS[lo:hi]) with trims"""

    def __init__(self, lo: str, hi: str, ltrim: Optional[frozenset], rtrim: Optional[frozenset], other: bool = False):
        self.lo, self.hi, self.ltrim, self.rtrim, self.other = lo, hi, ltrim, rtrim, other

    def __repr__(self):
        return f"join(words[{self.lo}:{self.hi}]) ltrim={None if self.ltrim is None else ''.join(sorted(self.ltrim))!r} " \
               f"rtrim={None if self.rtrim is None else ''.join(sorted(self.rtrim))!r}"


WS = frozenset(" \t\n\r\x0b\x0c")


def _chars(call: ast.Call) -> Optional[frozenset]:
    if not call.args:
        return WS
    a = call.args[0]
    if isinstance(a, ast.Constant) and isinstance(a.value, str):
        return frozenset(a.value)
    return None


class Scan:
    def __init__(self, fn: ast.FunctionDef, words: str):
        self.fn, self.words = fn, words
        self.defs: Dict[str, List[ast.AST]] = {}
        for s in stmts_local(fn.body):
            if isinstance(s, ast.Assign) and len(s.targets) == 1 and isinstance(s.targets[0], (ast.Name, ast.Attribute)):
                self.defs.setdefault(norm(s.targets[0]), []).append(s.value)
            elif isinstance(s, (ast.AugAssign, ast.AnnAssign)) and isinstance(s.target, ast.Name):
                self.defs.setdefault(s.target.id, []).append(None)
            elif isinstance(s, (ast.For,)) and isinstance(s.target, ast.Name):
                self.defs.setdefault(s.target.id, []).append(None)

    def slice_of(self, e: ast.AST, depth=0) -> Optional[Tuple[str, str]]:
        """WORDS[lo:hi] -> (lo, hi)"""
        if isinstance(e, ast.Name) and depth < 3 and len(self.defs.get(e.id, [])) == 1 and self.defs[e.id][0] is not None:
            return self.slice_of(self.defs[e.id][0], depth + 1)
        if isinstance(e, ast.Subscript) and norm(e.value) == self.words and isinstance(e.slice, ast.Slice) and e.slice.step is None:
            return (norm(e.slice.lower) if e.slice.lower is not None else "0", norm(e.slice.upper) if e.slice.upper is not None else "END")
        return None

    def seg(self, e: ast.AST, depth=0) -> Optional[Seg]:
        if depth > 6:
            return None
        if isinstance(e, (ast.Name, ast.Attribute)):
            d = self.defs.get(norm(e), [])
            if len(d) == 1 and d[0] is not None:
                return self.seg(d[0], depth + 1)
            return None
        if isinstance(e, ast.Call) and isinstance(e.func, ast.Attribute):
            a = e.func.attr
            if a in ("strip", "lstrip", "rstrip"):
                base = self.seg(e.func.value, depth + 1)
                if base is None:
                    return None
                cs = _chars(e)
                if cs is None:
                    return Seg(base.lo, base.hi, base.ltrim, base.rtrim, True)
                lt, rt = base.ltrim, base.rtrim
                if a in ("strip", "lstrip"):
                    lt = cs if lt is None else (lt if cs <= lt else None if not (lt <= cs) else cs)
                    if lt is None:
                        return Seg(base.lo, base.hi, None, rt, True)
                if a in ("strip", "rstrip"):
                    rt = cs if rt is None else (rt | cs)
                return Seg(base.lo, base.hi, lt, rt, base.other)
            if a == "join" and isinstance(e.func.value, ast.Constant) and e.func.value.value == "" and len(e.args) == 1:
                g = e.args[0]
                if isinstance(g, (ast.GeneratorExp, ast.ListComp)) and len(g.generators) == 1 and not g.generators[0].ifs:
                    v = g.generators[0].target
                    if isinstance(v, ast.Name) and norm(g.elt) in (f"str({v.id})", v.id):
                        sl = self.slice_of(g.generators[0].iter)
                        if sl:
                            return Seg(sl[0], sl[1], None, None)
                if isinstance(g, ast.Call) and dotted(g.func) == "map" and len(g.args) == 2 and norm(g.args[0]) == "str":
                    sl = self.slice_of(g.args[1])
                    if sl:
                        return Seg(sl[0], sl[1], None, None)
        return None

    def length(self, e: ast.AST, word: str, idx: str):
        """abstract a length expression: ("word",) | ("seg", Seg) | ("raw", lo, hi) | ("bad", why)"""
        if isinstance(e, ast.Call) and dotted(e.func) == "len" and len(e.args) == 1:
            a = e.args[0]
            if norm(a) in (word, f"{self.words}[{idx}]", f"str({word})"):
                return ("word",)
            s = self.seg(a)
            if s is not None:
                if s.other:
                    return ("bad", f"len of `{norm(a)[:50]}`: trims not resolvable")
                if s.rtrim is not None:
                    return ("bad", f"len of a string whose *end* was trimmed ({s!r}): the characters removed on the right still lie between the "
                                   "name and the citation, so the distance is short by however many the text happened to contain")
                return ("seg", s)
            return ("bad", f"len of `{norm(a)[:50]}`, which is not the scanned word nor a run of words")
        if isinstance(e, ast.Call) and dotted(e.func) == "sum" and len(e.args) == 1:
            g = e.args[0]
            if isinstance(g, (ast.GeneratorExp, ast.ListComp)) and len(g.generators) == 1 and not g.generators[0].ifs and isinstance(g.generators[0].target, ast.Name):
                v = g.generators[0].target.id
                if norm(g.elt) in (f"len({v})", f"len(str({v}))"):
                    sl = self.slice_of(g.generators[0].iter)
                    if sl:
                        return ("seg", Seg(sl[0], sl[1], None, None))
            if isinstance(g, ast.Call) and dotted(g.func) == "map" and len(g.args) == 2 and norm(g.args[0]) == "len":
                sl = self.slice_of(g.args[1])
                if sl:
                    return ("seg", Seg(sl[0], sl[1], None, None))
        if isinstance(e, ast.Name):
            d = self.defs.get(e.id, [])
            if len(d) == 1 and d[0] is not None:
                return self.length(d[0], word, idx)
        if isinstance(e, ast.BinOp) and isinstance(e.op, (ast.Add, ast.Sub)) and isinstance(e.right, ast.Constant):
            inner = self.length(e.left, word, idx)
            why = inner[1] if inner[0] == "bad" else "a width of scanned words"
            return ("bad", f"`{norm(e)[:60]}` corrects a length by a constant: that is exact only if the text has exactly that many separator characters "
                           f"there, which nothing guarantees ('Foo( v. Bar', a tab before 'v.'); inner term: {why}")
        return ("bad", f"`{norm(e)[:60]}` is not the width of scanned words (len(word), len(<run of words, left-trimmed>) or a sum of word widths)")


def locate(ctx: Ctx):
    repo = ctx.repo
    fn = repo.need_func("helpers.add_defendant")
    C, W = fn.args.args[0].arg, fn.args.args[1].arg
    loop = next((n for n in fn.body if isinstance(n, ast.For) and isinstance(n.target, ast.Name) and isinstance(n.iter, ast.Call)
                 and dotted(n.iter.func) == "range"), None)
    if loop is None:
        return None
    idx = loop.target.id
    # the accumulator: the name subtracted from span()[0] in the full_span_start store
    store = None
    for s in stmts_local(fn.body):
        if isinstance(s, ast.Assign) and norm(s.targets[0]) == f"{C}.full_span_start":
            store = s
    if store is None or not (isinstance(store.value, ast.BinOp) and isinstance(store.value.op, ast.Sub) and norm(store.value.left) == f"{C}.span()[0]"
                             and isinstance(store.value.right, ast.Name)):
        return fn, C, W, loop, idx, None, store
    return fn, C, W, loop, idx, store.value.right.id, store


def rule_backscan(ctx: Ctx, rule: str, exact_start: bool):
    """exact_start=False: the names lie inside the extent (C17, C02: the start
    is a real position >= 0 of the text).  exact_start=True additionally: the
    full span starts at the first character of the extracted plaintiff (C01)."""
    repo = ctx.repo
    hm = repo.mod("helpers")
    loc = locate(ctx)
    if loc is None:
        ctx.ob(rule, "helpers.add_defendant/scan-loop", False, "backward `for index in range(...)` loop not found", node=repo.need_func("helpers.add_defendant"), mod=hm)
        return
    fn, C, W, loop, idx, ACC, store = loc
    if ACC is None:
        ctx.ob(rule, "helpers.add_defendant/start-store", False,
               f"`{C}.full_span_start` must be stored as `{C}.span()[0] - <accumulated width>`: {norm(store)[:80] if store is not None else 'no store'}",
               node=store or fn, mod=hm)
        return
    sc = Scan(fn, W)
    # initialisation and range
    inits = [s for s in fn.body if isinstance(s, ast.Assign) and norm(s.targets[0]) == ACC]
    ok_init = len(inits) == 1 and isinstance(inits[0].value, ast.Constant) and inits[0].value.value == 0 and inits[0].lineno < loop.lineno
    ra = loop.iter.args
    ok_range = len(ra) == 3 and norm(ra[0]) == f"{C}.index - 1" and norm(ra[2]) == "-1"
    ctx.ob(rule, "helpers.add_defendant/scan-starts-at-citation", ok_init and ok_range,
           f"the scan starts with `{ACC} = 0` at the word before the citation (`range({C}.index - 1, .., -1)`) -- base case of the width invariant "
           f"(range: {norm(loop.iter)[:70]})", node=loop, mod=hm)
    # the word variable
    word = None
    for s in loop.body:
        if isinstance(s, ast.Assign) and isinstance(s.targets[0], ast.Name) and norm(s.value) == f"{W}[{idx}]":
            word = s.targets[0].id
            break
    word = word or f"{W}[{idx}]"
    results = []  # (exit, state, path)
    n_paths = 0
    bad: List[Tuple[ast.AST, str]] = []
    for p in enumerate_paths(loop.body):
        n_paths += 1
        st: Tuple = ("word", 1)
        plaintiff_seg = None
        start_index = None
        for ev in p.events:
            if ev[0] != "stmt":
                continue
            s = ev[1]
            if isinstance(s, ast.AugAssign) and norm(s.target) == ACC:
                L = sc.length(s.value, word, idx)
                if st[0] == "bad":
                    continue
                if isinstance(s.op, ast.Add):
                    if L[0] == "word" and st == ("word", 1):
                        st = ("word", 0)
                    elif L[0] == "seg" and st == ("word", 0) and L[1].hi == idx:
                        st = ("seg", L[1])
                    elif L[0] == "bad":
                        st = ("bad", L[1]); bad.append((s, L[1]))
                    else:
                        why = f"`{norm(s)}` adds a width that is not adjacent to what was counted so far ({st} then {L})"
                        st = ("bad", why); bad.append((s, why))
                elif isinstance(s.op, ast.Sub):
                    if L[0] == "word" and st == ("word", 0):
                        st = ("word", 1)
                    else:
                        why = f"`{norm(s)}` subtracts something other than the width of the word just added"
                        st = ("bad", why); bad.append((s, why))
                else:
                    st = ("bad", f"`{norm(s)}`"); bad.append((s, st[1]))
            elif isinstance(s, ast.Assign) and any(norm(t) == ACC for t in s.targets):
                why = f"`{norm(s)[:60]}` rebinds the accumulated width inside the scan"
                st = ("bad", why); bad.append((s, why))
            elif isinstance(s, ast.Assign) and norm(s.targets[0]) == f"{C}.metadata.plaintiff":
                plaintiff_seg = (s, sc.seg(s.value))
            elif isinstance(s, ast.Assign) and isinstance(s.targets[0], ast.Name) and norm(s.value) == f"{idx} + 1":
                start_index = s.targets[0].id
        results.append((p.exit, st, plaintiff_seg, start_index, p))
    ok_inv = True
    why_inv = ""
    for ex, st, _, _, p in results:
        if ex in ("fall", "continue") and st != ("word", 0) and st[0] != "bad":
            ok_inv, why_inv = False, f"an iteration that goes on to the next word leaves the width at {st}, not at the start of the word just scanned"
    ctx.ob(rule, "helpers.add_defendant/width-invariant", ok_inv and not bad and n_paths > 0,
           (f"on all {n_paths} paths through one iteration `{ACC}` is the exact summed width of words[{idx}:{C}.index] (or of words[{idx}+1:..] after the "
            "stop word was taken out, or up to the first kept character of the left-trimmed plaintiff run)") if ok_inv and not bad
           else (bad[0][1] if bad else why_inv), node=bad[0][0] if bad else loop, mod=hm)
    # the plaintiff is text of the run whose width was added
    n_pl = 0
    for ex, st, pl, si, p in results:
        if pl is None:
            continue
        n_pl += 1
        s, seg = pl
        cons = f"helpers.add_defendant/plaintiff-inside-counted-run"
        if seg is None or seg.other:
            ctx.ob(rule, cons, False, f"the plaintiff `{norm(s.value)[:70]}` is not a trim of a run of scanned words", node=s, mod=hm)
            continue
        if st[0] == "bad":
            continue  # reported by the width invariant
        if st[0] != "seg":
            ctx.ob(rule, cons, False, f"a plaintiff is stored but the width of its words was not added (state {st[0]})", node=s, mod=hm)
            continue
        cov: Seg = st[1]
        inside = cov.lo == seg.lo and cov.hi == seg.hi and (cov.ltrim is None or (seg.ltrim is not None and cov.ltrim <= seg.ltrim))
        ctx.ob(rule, cons, inside,
               f"the stored plaintiff ({seg!r}) lies inside the run whose width was counted ({cov!r}): what the start skips on the left is also "
               "trimmed from the name", node=s, mod=hm)
        if exact_start:
            same = inside and (seg.ltrim or frozenset()) == (cov.ltrim or frozenset())
            ctx.ob(rule, "helpers.add_defendant/start-is-plaintiff-start", same,
                   f"the full span starts at the first character of the extracted plaintiff: the width counted is that of the run left-trimmed by the same "
                   f"characters as the name ({cov!r} vs {seg!r})", node=s, mod=hm)
    ctx.ob(rule, "helpers.add_defendant/plaintiff-store-located", n_pl >= 1, f"{n_pl} path(s) store a plaintiff", node=fn, mod=hm, nontrivial=False)
    # the defendant: join of words[start_index:C.index], and start_index = index + 1 on the break paths
    si_names = {si for _, _, _, si, _ in results if si}
    d_ok, d_why, d_node = False, "defendant store not found", fn
    for s in stmts_local(fn.body):
        if isinstance(s, ast.Assign) and isinstance(s.targets[0], ast.Name) and s.lineno > loop.end_lineno:
            sg = sc.seg(s.value)
            if sg is not None and not sg.other and sg.hi == f"{C}.index":
                d_node = s
                d_ok = sg.lo in si_names
                d_why = f"defendant text is {sg!r}; the run starts at `{sg.lo}` = {idx} + 1 of the stop word ({sorted(si_names)})"
    ctx.ob(rule, "helpers.add_defendant/defendant-inside-counted-run", d_ok, d_why, node=d_node, mod=hm)
    # the store happens only when a stop word was found, and uses the accumulated width unchanged
    between = [s for s in stmts_local(fn.body) if s.lineno > loop.end_lineno and s.lineno < store.lineno
               and ((isinstance(s, ast.AugAssign) and norm(s.target) == ACC) or (isinstance(s, ast.Assign) and any(norm(t) == ACC for t in s.targets)))]
    ctx.ob(rule, "helpers.add_defendant/width-unchanged-until-store", not between,
           f"`{ACC}` is not modified between the scan and `{norm(store)[:60]}` ({[norm(b)[:40] for b in between]})", node=between[0] if between else store, mod=hm)
