"""Write-set (effect) analysis with receiver provenance, transitive over a
name-resolved call graph of the eyecite package.

For every function we compute which *roots* it may write through:
  ("param", name)   an object reachable from a parameter (incl. self)
  ("global", name)  a module-level object (or a `global` rebinding)
Writes to objects created inside the function (fresh locals) are not effects.

Callee resolution is by name (no execution, no imports of the analysed code):
  f(...)            module-level def / imported eyecite function / class ctor
  x.m(...)          every method named m in any eyecite class (virtual dispatch
                    over-approximated); if none, a builtin-type method: mutators
                    (append, update, ...) write through x, everything else is pure
  p(...)            p a parameter whose default is a module-level function
External modules are classified by the table PURE_EXTERNAL; a call that is in
neither is reported as `unknown_calls` for the client to judge.
"""
from __future__ import annotations

import ast
from typing import Dict, List, Optional, Set, Tuple

from .core import Module, Repo, dotted, norm, walk_local
from .fold import MUTATORS

PURE_BUILTINS = {
    "len", "isinstance", "issubclass", "int", "str", "float", "bool", "list", "set",
    "dict", "tuple", "frozenset", "sorted", "reversed", "enumerate", "zip", "map",
    "filter", "min", "max", "sum", "any", "all", "range", "hash", "id", "type",
    "getattr", "hasattr", "repr", "callable", "iter", "next", "abs", "ord", "chr",
    "cast", "print", "format", "super", "object", "slice", "bytes", "divmod", "round",
    "ValueError", "TypeError", "AttributeError", "KeyError", "IndexError", "Exception",
}
# module aliases whose functions do not write to objects we pass them
PURE_EXTERNAL_ROOTS = {
    "re", "regex", "json", "hashlib", "logging", "logger", "typing", "bisect",
    "datetime", "date", "etree", "lxml", "fast_diff_match_patch", "difflib",
    "partial", "functools", "Template", "Path", "hyperscan", "ahocorasick",
    "SequenceMatcher", "deepcopy", "copy", "asdict", "dataclasses", "field",
    "bisect_left", "bisect_right", "defaultdict", "UserString", "getLogger",
    "process_variables", "recursive_substitute", "courts", "string",
}


def _elem(r):
    """root of the *elements* of a fresh container"""
    return r if r[0] == "fresh" or r[0].endswith("*") else (r[0] + "*", r[1])


def _real(r):
    return (r[0][:-1], r[1]) if r[0].endswith("*") else r


def _is_elem(r):
    return r[0].endswith("*")


CONTAINER_BUILTINS = {"list", "sorted", "set", "tuple", "frozenset", "reversed", "filter", "iter", "next", "enumerate", "zip", "dict"}


class FuncSummary:
    def __init__(self, qual: str, mod: Module, node: ast.FunctionDef):
        self.qual = qual
        self.mod = mod
        self.node = node
        self.params = [a.arg for a in node.args.posonlyargs + node.args.args + node.args.kwonlyargs]
        if node.args.vararg:
            self.params.append(node.args.vararg.arg)
        if node.args.kwarg:
            self.params.append(node.args.kwarg.arg)
        self.writes: List[Tuple[Tuple[str, str], ast.AST, str]] = []  # (root, node, how)
        self.calls: List[Tuple[List[str], ast.Call, List[Optional[Tuple[str, str]]], Optional[Tuple[str, str]]]] = []
        self.unknown_calls: List[ast.Call] = []
        self.global_decl: Set[str] = set()
        self.local_roots: Dict[str, Set[Tuple[str, str]]] = {}
        # writes that go *through the value of* a field of self (self.f.append(..), self.f[k] = v, self.f.x = v): in a constructor the
        # value of a dataclass field is the caller's argument, not part of the fresh object
        self.field_writes: List[Tuple[str, ast.AST, str]] = []


class Effects:
    def __init__(self, repo: Repo, typed=None):
        self.repo = repo
        self.typed = typed
        self.user_callables: List[Tuple[str, ast.Call]] = []
        self.external_calls: List[Tuple[str, ast.Call, str, str]] = []  # (function, call, import-resolved origin, class)
        self._typed_calls: Set[int] = set()
        self.properties: Dict[str, List[str]] = {}
        self._stored_callable_cache: Dict[Tuple[str, str], List[str]] = {}
        self.funcs: Dict[str, FuncSummary] = {}
        self.by_name: Dict[str, List[str]] = {}
        self.methods: Dict[str, List[str]] = {}
        for qual, m, node in repo.all_funcs(include_tests=False):
            fs = FuncSummary(qual, m, node)
            self.funcs[qual] = fs
            parts = qual.split(".")
            if len(parts) == 2:
                self.by_name.setdefault(parts[1], []).append(qual)
            # methods: module.Class.method (one level)
            if len(parts) == 3 and parts[1] in repo.classes:
                self.methods.setdefault(parts[2], []).append(qual)
                if any(dotted(d) == "property" for d in node.decorator_list):
                    self.properties.setdefault(parts[2], []).append(qual)
        self.param_types: Dict[Tuple[str, str], str] = {}
        self.fresh_ret: Dict[str, bool] = {}
        order = sorted(self.funcs.values(), key=lambda f: f.qual.count("."))
        for fs in order:
            fs.assigned = set()
        for fs in order:
            self._analyse(fs)
        if self.typed is not None:
            self._infer_param_types()
        # does a function return only objects it created?  (optimistic fixpoint)
        for _ in range(5):
            self.user_callables = []
            self.external_calls = []
            for fs in order:
                self._analyse(fs)
            new = {fs.qual: self._returns_fresh(fs) for fs in order}
            if new == self.fresh_ret:
                break
            self.fresh_ret = new
        self._closure()

    # ---- per-function ----------------------------------------------------
    def _roots_of(self, fs: FuncSummary, e: ast.AST, depth=0) -> Set[Tuple[str, str]]:
        """Roots an expression's value may alias: set of (kind, name);
        ('fresh','') when the value is created here."""
        if depth > 12:
            return {("fresh", "")}
        if isinstance(e, ast.Name):
            if e.id in fs.params:
                return {("param", e.id)}
            if e.id in fs.local_roots:
                return set(fs.local_roots[e.id]) or {("fresh", "")}
            if e.id in fs.assigned:
                return {("fresh", "")}
            outer = self._outer(fs)
            if outer is not None and (e.id in outer.params or e.id in outer.assigned):
                return {("closure", e.id)}
            return {("global", e.id)}
        if isinstance(e, ast.Subscript):
            if isinstance(e.slice, ast.Slice):
                return {_elem(r) for r in self._roots_of(fs, e.value, depth + 1)}
            return {_real(r) for r in self._roots_of(fs, e.value, depth + 1)}
        if isinstance(e, (ast.Attribute, ast.Starred)):
            return {_real(r) for r in self._roots_of(fs, e.value, depth + 1)}
        if isinstance(e, ast.IfExp):
            return self._roots_of(fs, e.body, depth + 1) | self._roots_of(fs, e.orelse, depth + 1)
        if isinstance(e, ast.BoolOp):
            out = set()
            for v in e.values:
                out |= self._roots_of(fs, v, depth + 1)
            return out
        if isinstance(e, ast.NamedExpr):
            return self._roots_of(fs, e.value, depth + 1)
        if isinstance(e, ast.Call):
            fn = dotted(e.func)
            if fn in ("cast", "typing.cast") and len(e.args) == 2:
                return self._roots_of(fs, e.args[1], depth + 1)
            if fn == "getattr" and e.args:
                return self._roots_of(fs, e.args[0], depth + 1)
            if fn in CONTAINER_BUILTINS:
                # a new container whose *elements* are those of the arguments
                out = set()
                for a in e.args:
                    out |= {_elem(r) for r in self._roots_of(fs, a, depth + 1)}
                if fn == "next":
                    out = {_real(r) for r in out}
                return out or {("fresh", "")}
            if isinstance(e.func, ast.Attribute) and e.func.attr in ("get", "setdefault", "__getitem__", "pop", "popitem"):
                return {_real(r) for r in self._roots_of(fs, e.func.value, depth + 1)}
            if isinstance(e.func, ast.Attribute) and e.func.attr in ("values", "items", "keys", "copy"):
                return {_elem(r) for r in self._roots_of(fs, e.func.value, depth + 1)}
            targets = self._targets_of(fs, e)
            if targets:
                if all(self.fresh_ret.get(t, True) for t in targets):
                    return {("fresh", "")}
                out = set()
                if isinstance(e.func, ast.Attribute):
                    out |= self._roots_of(fs, e.func.value, depth + 1)
                for a in list(e.args) + [k.value for k in e.keywords]:
                    out |= self._roots_of(fs, a, depth + 1)
                return out or {("fresh", "")}
            return {("fresh", "")}
        if isinstance(e, (ast.GeneratorExp, ast.ListComp, ast.SetComp)):
            # elements: provenance of the element expression with the comprehension variables bound to their sources
            out = set()
            for g in e.generators:
                out |= {_elem(r) for r in self._roots_of(fs, g.iter, depth + 1)}
            elt_names = {n.id for n in ast.walk(e.elt) if isinstance(n, ast.Name)}
            comp_vars = {n.id for g in e.generators for n in ast.walk(g.target) if isinstance(n, ast.Name)}
            if isinstance(e.elt, ast.Call) and not (elt_names & comp_vars):
                return {("fresh", "")}
            if not (elt_names & comp_vars) and not isinstance(e.elt, (ast.Name, ast.Attribute, ast.Subscript)):
                return {("fresh", "")}
            return out or {("fresh", "")}
        return {("fresh", "")}

    def _targets_of(self, fs: FuncSummary, c: ast.Call) -> List[str]:
        """resolved eyecite callees of a call (no side effects on fs)."""
        if isinstance(c.func, ast.Name):
            name = c.func.id
            if name in fs.params:
                if fs.params and name == fs.params[0] and self._is_classmethod(fs):
                    return []  # cls(...): a fresh instance
                d = self._param_default(fs, name)
                return [f"{fs.mod.name}.{d}"] if d and f"{fs.mod.name}.{d}" in self.funcs else []
            t = self._resolve_name(fs, name)
            if t:
                # constructors return the fresh object under construction
                if all(x.endswith(".__init__") or x.endswith(".__post_init__") for x in t):
                    return []
                return t
            nested = f"{fs.qual}.{name}"
            if nested in self.funcs:
                return [nested]
            sib = self._enclosing_def(fs, name)
            return [sib] if sib else []
        if isinstance(c.func, ast.Attribute):
            meth = c.func.attr
            recv = c.func.value
            if isinstance(recv, ast.Call) and dotted(recv.func) == "super":
                return list(self.methods.get(meth, []))
            tcls, known = self._recv_class(fs, recv)
            if tcls is not None:
                cands = self._methods_for(fs, recv, meth, [])
                if cands:
                    return cands
                return self._stored_callable(tcls, meth)
            if known:
                return []
            root = dotted(recv)
            rootname = root.split(".")[0] if root else None
            if rootname and rootname in PURE_EXTERNAL_ROOTS and rootname not in fs.params:
                return []
            if meth in ("get", "update", "items", "keys", "values", "append", "pop", "strip", "lower", "upper", "replace", "split", "join",
                        "format", "startswith", "endswith", "isdigit", "rstrip", "lstrip", "group", "groups", "span", "start", "end", "groupdict"):
                return []
            return list(self.methods.get(meth, []))
        return []

    def _returns_fresh(self, fs: FuncSummary) -> bool:
        vals = []
        for n in walk_local(fs.node):
            if isinstance(n, ast.Return) and n.value is not None:
                vals.append(n.value)
            elif isinstance(n, ast.Yield) and n.value is not None:
                vals.append(n.value)
            elif isinstance(n, ast.YieldFrom):
                vals.append(n.value)
        for v in vals:
            parts = list(v.elts) if isinstance(v, ast.Tuple) else [v]
            for x in parts:
                if any(r[0] != "fresh" for r in self._roots_of(fs, x)):
                    return False
        return True

    def _is_memo_store(self, fs: FuncSummary, stmt: ast.AST, target: ast.Attribute) -> bool:
        """`if not hasattr(self, "_x"): ...; self._x = <expr>` -- an idempotent
        memo: the store is inside the body of a `not hasattr(obj, "<attr>")`
        test for the very attribute stored."""
        cur = stmt
        while cur is not None and cur is not fs.node:
            par = getattr(cur, "parent", None)
            if isinstance(par, ast.If) and cur in par.body:
                t = par.test
                if (isinstance(t, ast.UnaryOp) and isinstance(t.op, ast.Not) and isinstance(t.operand, ast.Call)
                        and dotted(t.operand.func) == "hasattr" and len(t.operand.args) == 2
                        and norm(t.operand.args[0]) == norm(target.value)
                        and isinstance(t.operand.args[1], ast.Constant) and t.operand.args[1].value == target.attr):
                    return True
            cur = par
        return False

    def _self_field(self, fs: FuncSummary, e: ast.AST, depth: int = 0) -> Optional[str]:
        """the field f if `e` denotes the *value of* self.f (or something reached through it); follows one rebinding
        `self.f = self.g.x` inside the same function (then the value belongs to field g)."""
        if not fs.params or fs.params[0] not in ("self",):
            return None
        chain = []
        cur = e
        while isinstance(cur, (ast.Attribute, ast.Subscript)):
            if isinstance(cur, ast.Attribute):
                chain.append(cur.attr)
            cur = cur.value
        if not (isinstance(cur, ast.Name) and cur.id == fs.params[0]) or not chain:
            return None
        field = chain[-1]
        if depth < 3:
            for n in walk_local(fs.node):
                if isinstance(n, ast.Assign) and any(isinstance(t, ast.Attribute) and norm(t) == f"{fs.params[0]}.{field}" for t in n.targets):
                    unconditional = n in fs.node.body and n.lineno <= getattr(e, "lineno", 10 ** 9)
                    inner = self._self_field(fs, n.value, depth + 1)
                    if inner is not None and inner != field and unconditional:
                        return inner
                    if inner is None and unconditional and not (isinstance(n.value, ast.Name) and n.value.id in fs.params):
                        return None  # unconditionally rebound, before the write, to something created here
        return field

    def _ctor_field_order(self, cls: str) -> List[str]:
        out: List[str] = []
        for c in reversed(self.repo.mro(cls)):
            ci = self.repo.classes.get(c)
            if ci is None:
                continue
            for s_ in ci.node.body:
                if isinstance(s_, ast.AnnAssign) and isinstance(s_.target, ast.Name):
                    if isinstance(s_.value, ast.Call) and dotted(s_.value.func) == "field" and any(
                            k.arg == "init" and isinstance(k.value, ast.Constant) and k.value.value is False for k in s_.value.keywords):
                        continue
                    if s_.target.id not in out:
                        out.append(s_.target.id)
        return out

    def _enclosing_def(self, fs: FuncSummary, name: str) -> Optional[str]:
        """qualname of a function `name` defined in an enclosing function scope."""
        q = fs.qual
        while "." in q:
            q = q.rsplit(".", 1)[0]
            cand = f"{q}.{name}"
            if cand in self.funcs and q in self.funcs:
                return cand
        return None

    def _outer(self, fs: FuncSummary) -> Optional[FuncSummary]:
        q = fs.qual.rsplit(".", 1)[0]
        o = self.funcs.get(q)
        return o if o is not None and o.node is not fs.node else None

    def _analyse(self, fs: FuncSummary):
        node = fs.node
        fs.writes, fs.calls, fs.unknown_calls, fs.local_roots = [], [], [], {}
        fs.field_writes = []
        fs.assigned = set()
        for n in walk_local(node):
            if isinstance(n, ast.Name) and isinstance(n.ctx, (ast.Store, ast.Del)):
                fs.assigned.add(n.id)
            elif isinstance(n, ast.ExceptHandler) and n.name:
                fs.assigned.add(n.name)
            elif isinstance(n, (ast.Import, ast.ImportFrom)):
                for a in n.names:
                    fs.assigned.add((a.asname or a.name).split(".")[0])
            elif isinstance(n, (ast.FunctionDef, ast.ClassDef)):
                fs.assigned.add(n.name)
            elif isinstance(n, ast.Global):
                fs.global_decl.update(n.names)
        fs.assigned -= fs.global_decl
        # alias fixpoint for locals
        for _ in range(6):
            changed = False
            for n in walk_local(node):
                binds: List[Tuple[ast.AST, ast.AST]] = []
                if isinstance(n, ast.Assign):
                    for t in n.targets:
                        binds.append((t, n.value))
                elif isinstance(n, ast.AnnAssign) and n.value is not None:
                    binds.append((n.target, n.value))
                elif isinstance(n, ast.NamedExpr):
                    binds.append((n.target, n.value))
                elif isinstance(n, (ast.For, ast.comprehension)):
                    binds.append((n.target, n.iter))
                elif isinstance(n, ast.With):
                    for it in n.items:
                        if it.optional_vars is not None:
                            binds.append((it.optional_vars, it.context_expr))
                for t, v in binds:
                    roots = {r for r in self._roots_of(fs, v) if r[0] != "fresh"}
                    if isinstance(n, (ast.For, ast.comprehension)) or isinstance(t, (ast.Tuple, ast.List)):
                        roots = {_real(r) for r in roots}  # iterating / unpacking yields the elements themselves
                    for nm in ast.walk(t):
                        if isinstance(nm, ast.Name) and isinstance(nm.ctx, ast.Store) and nm.id not in fs.params:
                            cur = fs.local_roots.setdefault(nm.id, set())
                            if not roots <= cur:
                                cur |= roots
                                changed = True
            if not changed:
                break
        # writes
        for n in walk_local(node):
            targets: List[ast.AST] = []
            if isinstance(n, ast.Assign):
                targets = list(n.targets)
            elif isinstance(n, (ast.AugAssign, ast.AnnAssign)):
                if not (isinstance(n, ast.AnnAssign) and n.value is None):
                    targets = [n.target]
            elif isinstance(n, ast.Delete):
                targets = list(n.targets)
            flat = []
            for t in targets:
                if isinstance(t, (ast.Tuple, ast.List)):
                    flat += list(t.elts)
                else:
                    flat.append(t)
            for t in flat:
                if isinstance(t, (ast.Attribute, ast.Subscript)):
                    how = "store " + norm(t)
                    if isinstance(t, ast.Attribute) and self._is_memo_store(fs, n, t):
                        how = "memo " + norm(t)
                    for r in self._roots_of(fs, t.value):
                        if r[0] != "fresh" and not _is_elem(r):
                            fs.writes.append((r, n, how))
                    fld = self._self_field(fs, t.value)
                    if fld is not None:
                        fs.field_writes.append((fld, n, how))
                elif isinstance(t, ast.Name) and t.id in fs.global_decl:
                    fs.writes.append((("global", t.id), n, "global rebinding"))
            if isinstance(n, ast.Call):
                self._call(fs, n)
            elif isinstance(n, ast.Attribute) and isinstance(n.ctx, ast.Load) and n.attr in self.properties:
                par = getattr(n, "parent", None)
                if not (isinstance(par, ast.Call) and par.func is n):
                    cands = self._methods_for(fs, n.value, n.attr, self.properties[n.attr])
                    for rr in self._roots_of(fs, n.value) or {("fresh", "")}:
                        fake = ast.Call(func=n, args=[], keywords=[])
                        ast.copy_location(fake, n)
                        fs.calls.append((cands, fake, [], {}, rr))
            elif isinstance(n, ast.Name) and isinstance(n.ctx, ast.Load) and f"{fs.qual}.{n.id}" in self.funcs:
                par = getattr(n, "parent", None)
                if not (isinstance(par, ast.Call) and par.func is n):
                    # nested function passed as a callback: assume it is called
                    fake = ast.Call(func=n, args=[], keywords=[])
                    ast.copy_location(fake, n)
                    fs.calls.append(([f"{fs.qual}.{n.id}"], fake, [], {}, None))

    def _external(self, fs: FuncSummary, c: ast.Call, argroots, kwroots) -> Optional[str]:
        """A call that leaves the package: classify its import-resolved origin (sa/external.py).  Returns the class, or None when
        the root name is not an import of an external module.  'mutates-args' records writes through the arguments."""
        from .external import classify, origin_of

        n = c.func
        while isinstance(n, ast.Attribute):
            n = n.value
        if not isinstance(n, ast.Name) or n.id in fs.params:
            return None
        local_imports = {}
        for x in walk_local(fs.node):
            if isinstance(x, ast.ImportFrom) and x.module:
                for a in x.names:
                    local_imports[a.asname or a.name] = f"{x.module}.{a.name}"
            elif isinstance(x, ast.Import):
                for a in x.names:
                    local_imports[a.asname or a.name.split(".")[0]] = a.name if a.asname else a.name.split(".")[0]
        if n.id in fs.assigned and n.id not in local_imports:
            return None
        origin = origin_of(fs.mod.imports, c.func, local_imports)
        if origin is None:
            return None
        kind = classify(origin)
        if kind == "eyecite":
            return None
        if kind == "mutates-args":
            for rs in list(argroots) + list(kwroots.values()):
                for r in rs:
                    if r[0] != "fresh" and not _is_elem(r):
                        fs.writes.append((r, c, f"{origin}() mutates its argument"))
        self.external_calls.append((fs.qual, c, origin, kind))
        return kind

    def _call(self, fs: FuncSummary, c: ast.Call):
        fn = dotted(c.func)
        args = list(c.args) + [k.value for k in c.keywords]
        argroots: List[Set[Tuple[str, str]]] = [self._roots_of(fs, a) for a in c.args]
        kwroots = {k.arg: self._roots_of(fs, k.value) for k in c.keywords if k.arg}
        # setattr family
        if fn in ("setattr", "object.__setattr__", "delattr") and c.args:
            for r in self._roots_of(fs, c.args[0]):
                if r[0] != "fresh":
                    fs.writes.append((r, c, fn))
            return
        if isinstance(c.func, ast.Name):
            name = c.func.id
            if name in fs.params:
                if fs.params and name == fs.params[0] and self._is_classmethod(fs):
                    # cls(...): constructs an instance of the class or a subclass
                    cls = fs.qual.split(".")[1]
                    targets = []
                    for sub in self.repo.subclasses(cls):
                        targets += self._ctor(sub) or []
                    if targets:
                        fs.calls.append((sorted(set(targets)), c, argroots, kwroots, None))
                    return
                # callable parameter: resolve through its default, if any
                d = self._param_default(fs, name)
                if d and self.repo.func(f"{fs.mod.name}.{d}") is not None:
                    fs.calls.append(([f"{fs.mod.name}.{d}"], c, argroots, kwroots, None))
                else:
                    self.user_callables.append((fs.qual, c))
                return
            targets = self._resolve_name(fs, name)
            if targets is not None:
                if targets:
                    fs.calls.append((targets, c, argroots, kwroots, None))
                return
            if name in PURE_BUILTINS or name in PURE_EXTERNAL_ROOTS:
                return
            sib = self._enclosing_def(fs, name)
            if sib is not None and name not in fs.assigned:
                fs.calls.append(([sib], c, argroots, kwroots, None))
                return
            if name in fs.assigned:
                # local callable (nested def / lambda / partial): nested defs
                nested = f"{fs.qual}.{name}"
                if nested in self.funcs:
                    fs.calls.append(([nested], c, argroots, kwroots, None))
                    return
                t = self._local_callable_targets(fs, name)
                if t is not None:
                    targets, user = t
                    if targets:
                        fs.calls.append((targets, c, argroots, kwroots, ("param", fs.params[0]) if fs.params and fs.params[0] in ("self", "cls") else None))
                    if user:
                        self.user_callables.append((fs.qual, c))
                    return
            if self._external(fs, c, argroots, kwroots) in ("pure", "mutates-args", "ambient", "memo"):
                return  # ambient reads are judged by R-C15-4 / O9, memoising decorators by the client (fs.memo_decorated)
            fs.unknown_calls.append(c)
            return
        if isinstance(c.func, ast.Attribute):
            meth = c.func.attr
            recv = c.func.value
            root = dotted(recv)
            rootname = root.split(".")[0] if root else None
            if rootname and rootname in PURE_EXTERNAL_ROOTS and rootname not in fs.params and rootname not in fs.local_roots:
                return
            if rootname and rootname not in fs.local_roots and rootname not in self.repo.classes:
                kind = self._external(fs, c, argroots, kwroots)
                if kind in ("pure", "mutates-args", "ambient", "memo"):
                    return
                if kind in ("stateful", "unknown"):
                    fs.unknown_calls.append(c)
                    return
            if isinstance(recv, ast.Call) and dotted(recv.func) == "super":
                # super().m(...): resolve in bases
                cands = [q for q in self.methods.get(meth, [])]
                if cands:
                    fs.calls.append((cands, c, argroots, kwroots, ("param", fs.params[0]) if fs.params else None))
                return
            # class-qualified call  Class.method(...)
            if rootname and rootname in self.repo.classes and not (rootname in fs.params):
                cands = [q for q in self.methods.get(meth, []) if q.split(".")[1] in self.repo.mro(rootname)]
                if cands:
                    fs.calls.append((cands, c, argroots, kwroots, None))
                    return
            recv_roots = self._roots_of(fs, recv)
            tcls, tknown = self._recv_class(fs, recv)
            if tcls is not None:
                cands = self._methods_for(fs, recv, meth, self.methods.get(meth, []))
                if cands:
                    self._typed_calls.add(id(c))
                    for rr in recv_roots:
                        fs.calls.append((list(cands), c, argroots, kwroots, rr))
                    return
                stored = self._stored_callable(tcls, meth)
                if stored:
                    fs.calls.append((stored, c, argroots, kwroots, None))
                    return
                # attribute of an eyecite object that is not a method: a field holding a builtin container
                if meth in MUTATORS:
                    for r in recv_roots:
                        if r[0] != "fresh" and not _is_elem(r):
                            fs.writes.append((r, c, f"mutator .{meth}()"))
                    fld = self._self_field(fs, recv)
                    if fld is not None:
                        fs.field_writes.append((fld, c, f"mutator .{meth}()"))
                return
            if tknown:
                # receiver has a known non-eyecite type (builtin / third-party): method-table semantics
                if meth in MUTATORS:
                    for r in recv_roots:
                        if r[0] != "fresh" and not _is_elem(r):
                            fs.writes.append((r, c, f"mutator .{meth}()"))
                    fld = self._self_field(fs, recv)
                    if fld is not None:
                        fs.field_writes.append((fld, c, f"mutator .{meth}()"))
                return
            cands = self.methods.get(meth, [])
            if cands and meth not in ("get", "update", "items", "keys", "values", "append", "pop", "strip", "lower", "upper", "replace", "split", "join", "format", "startswith", "endswith", "isdigit"):
                for rr in recv_roots:
                    fs.calls.append((list(cands), c, argroots, kwroots, rr))
                return
            if meth in MUTATORS:
                for r in recv_roots:
                    if r[0] != "fresh" and not _is_elem(r):
                        fs.writes.append((r, c, f"mutator .{meth}()"))
                fld = self._self_field(fs, recv)
                if fld is not None:
                    fs.field_writes.append((fld, c, f"mutator .{meth}()"))
            return
        fs.unknown_calls.append(c)

    def _infer_param_types(self):
        """Unannotated parameters: if every resolved call site passes an
        expression of one eyecite class, use that class as the parameter type
        (one level of call-site summaries)."""
        from .typed import eyecite_class

        seen: Dict[Tuple[str, str], Set[Optional[str]]] = {}
        for q, fs in self.funcs.items():
            for targets, call, argroots, kwroots, recv_root in fs.calls:
                if not isinstance(call.func, ast.Name) and id(call) not in self._typed_calls:
                    continue  # name-based fallback: too imprecise to learn from
                for t in targets:
                    cs = self.funcs.get(t)
                    if cs is None or t.endswith(".__init__") or t.endswith(".__post_init__"):
                        continue
                    bound = not isinstance(call.func, ast.Name) and len(t.split(".")) >= 3 and t.split(".")[1] in self.repo.classes \
                        and not self._is_static(cs)
                    ps = cs.params[1:] if bound else cs.params
                    for i, a in enumerate(getattr(call, "args", [])):
                        if i < len(ps):
                            seen.setdefault((t, ps[i]), set()).add(eyecite_class(self.typed.type_of(fs.mod, a)))
                    for k in getattr(call, "keywords", []):
                        if k.arg in ps:
                            seen.setdefault((t, k.arg), set()).add(eyecite_class(self.typed.type_of(fs.mod, k.value)))
        for key, types in seen.items():
            if len(types) == 1 and None not in types:
                fs = self.funcs[key[0]]
                a = next((x for x in fs.node.args.args + fs.node.args.kwonlyargs if x.arg == key[1]), None)
                if a is not None and a.annotation is None:
                    self.param_types[key] = next(iter(types))

    @staticmethod
    def _is_static(cs: "FuncSummary") -> bool:
        return any(dotted(d) == "staticmethod" for d in cs.node.decorator_list)

    @staticmethod
    def _is_classmethod(cs: "FuncSummary") -> bool:
        return any(dotted(d) == "classmethod" for d in cs.node.decorator_list)

    def _recv_class(self, fs: FuncSummary, recv: ast.AST):
        """(eyecite class name | None, type-known?)"""
        if self.typed is None:
            return None, False
        from .typed import eyecite_class

        if isinstance(recv, ast.Name) and (fs.qual, recv.id) in self.param_types:
            return self.param_types[(fs.qual, recv.id)], True
        t = self.typed.type_of(fs.mod, recv)
        if t is None or t in ("Any", "builtins.object", "object") or t.startswith("Any"):
            return None, False
        cls = eyecite_class(t)
        if cls is not None and cls in self.repo.classes:
            return cls, True
        if "eyecite." in t:
            return None, False  # union of eyecite classes etc.: fall back to name-based
        return None, True

    def _methods_for(self, fs: FuncSummary, recv: ast.AST, meth: str, fallback: List[str]) -> List[str]:
        cls, _ = self._recv_class(fs, recv)
        if cls is None:
            return list(fallback)
        out = []
        found = self.repo.find_method(cls, meth)
        if found:
            c, fn = found
            out.append(f"{self.repo.classes[c].module.name}.{c}.{meth}")
        for sub in self.repo.subclasses(cls):
            if sub != cls and meth in self.repo.classes[sub].methods:
                out.append(f"{self.repo.classes[sub].module.name}.{sub}.{meth}")
        return [q for q in out if q in self.funcs]

    def _stored_callable(self, cls: str, field: str) -> List[str]:
        """targets of `obj.<field>(...)` where <field> is a dataclass field of
        cls holding a callable: every `X.meth` passed for it at a construction
        site of cls anywhere in the package."""
        key = (cls, field)
        if key in self._stored_callable_cache:
            return self._stored_callable_cache[key]
        out: List[str] = []
        ci = self.repo.classes.get(cls)
        fields = ci.fields() if ci else []
        if field in fields:
            idx = fields.index(field)
            for m in self.repo.modules.values():
                for n in ast.walk(m.tree):
                    if isinstance(n, ast.Call) and dotted(n.func) and dotted(n.func).split(".")[-1] == cls:
                        arg = None
                        if idx < len(n.args):
                            arg = n.args[idx]
                        for k in n.keywords:
                            if k.arg == field:
                                arg = k.value
                        if isinstance(arg, ast.Attribute) and isinstance(arg.value, ast.Name) and arg.value.id in self.repo.classes:
                            found = self.repo.find_method(arg.value.id, arg.attr)
                            if found:
                                q = f"{self.repo.classes[found[0]].module.name}.{found[0]}.{arg.attr}"
                                if q in self.funcs and q not in out:
                                    out.append(q)
        self._stored_callable_cache[key] = out
        return out

    def _local_callable_targets(self, fs: FuncSummary, name: str):
        """targets of a call through a local variable: (qualnames, may-be-user-callable)"""
        targets: List[str] = []
        user = False
        vals: List[ast.AST] = []
        for n in walk_local(fs.node):
            if isinstance(n, ast.Assign) and any(isinstance(t, ast.Name) and t.id == name for t in n.targets):
                vals.append(n.value)
            elif isinstance(n, ast.AnnAssign) and isinstance(n.target, ast.Name) and n.target.id == name and n.value is not None:
                vals.append(n.value)
        if not vals:
            return None
        todo = list(vals)
        while todo:
            v = todo.pop()
            if isinstance(v, ast.IfExp):
                todo += [v.body, v.orelse]
            elif isinstance(v, ast.Call) and dotted(v.func) in ("partial", "functools.partial") and v.args:
                todo.append(v.args[0])  # partial(f, ...) calls f
            elif isinstance(v, ast.Name):
                if v.id in fs.params or any(r[0] == "param" for r in fs.local_roots.get(v.id, ())):
                    user = True
                else:
                    t = self._resolve_name(fs, v.id)
                    if t is None:
                        return None
                    targets += t
            elif isinstance(v, ast.Attribute) and isinstance(v.value, ast.Name) and v.value.id in ("self", "cls"):
                cands = [q for q in self.methods.get(v.attr, []) if q.startswith(fs.qual.rsplit(".", 1)[0] + ".")] or self.methods.get(v.attr, [])
                if not cands:
                    return None
                targets += cands
            elif isinstance(v, ast.Call) and isinstance(v.func, ast.Attribute) and v.func.attr == "get" and isinstance(v.func.value, ast.Name) \
                    and isinstance(fs.mod.toplevel_assign(v.func.value.id), ast.Dict) and len(v.args) in (1, 2) \
                    and (len(v.args) == 1 or (isinstance(v.args[1], ast.Constant) and v.args[1].value is None)):
                # TABLE.get(key): one of the functions stored in a module-level dispatch dict (or None)
                d = fs.mod.toplevel_assign(v.func.value.id)
                if all(isinstance(x, ast.Name) for x in d.values):
                    for x in d.values:
                        t = self._resolve_name(fs, x.id)
                        if t:
                            targets += t
                else:
                    return None
            elif isinstance(v, ast.Subscript) and isinstance(v.value, ast.Name):
                d = fs.mod.toplevel_assign(v.value.id)
                if isinstance(d, ast.Dict) and all(isinstance(x, ast.Name) for x in d.values):
                    for x in d.values:
                        t = self._resolve_name(fs, x.id)
                        if t:
                            targets += t
                else:
                    return None
            else:
                return None
        return targets, user

    def _param_default(self, fs: FuncSummary, name: str) -> Optional[str]:
        a = fs.node.args
        pos = a.posonlyargs + a.args
        for p, d in zip(pos[len(pos) - len(a.defaults):], a.defaults):
            if p.arg == name and isinstance(d, ast.Name):
                return d.id
        for p, d in zip(a.kwonlyargs, a.kw_defaults):
            if p.arg == name and isinstance(d, ast.Name):
                return d.id
        return None

    def _resolve_name(self, fs: FuncSummary, name: str) -> Optional[List[str]]:
        """Qualnames a bare-name call may reach; [] = known, nothing to
        follow (dataclass ctor without __post_init__); None = not ours."""
        m = fs.mod
        # lazy in-function imports
        for n in walk_local(fs.node):
            if isinstance(n, ast.ImportFrom) and n.module and n.module.startswith("eyecite"):
                for a in n.names:
                    if (a.asname or a.name) == name:
                        q = f"{n.module.split('.')[-1]}.{a.name}"
                        return [q] if q in self.funcs else self._ctor(a.name)
        if f"{m.name}.{name}" in self.funcs:
            return [f"{m.name}.{name}"]
        origin = m.imports.get(name)
        if origin and origin.startswith("eyecite"):
            parts = origin.split(".")
            q = f"{parts[-2]}.{parts[-1]}" if len(parts) >= 3 else None
            if q in self.funcs:
                return [q]
            if parts[-1] in self.repo.classes:
                return self._ctor(parts[-1])
            # `from eyecite import clean_text` style re-export
            for cand in self.by_name.get(parts[-1], []):
                return [cand]
            return None
        if name in self.repo.classes and self.repo.classes[name].module is m:
            return self._ctor(name)
        return None

    def _ctor(self, cls: str) -> Optional[List[str]]:
        if cls not in self.repo.classes:
            return None
        out = []
        for meth in ("__init__", "__post_init__"):
            for c in self.repo.mro(cls):
                ci = self.repo.classes.get(c)
                if ci and meth in ci.methods:
                    out.append(f"{ci.module.name}.{c}.{meth}")
        return out

    # ---- transitive closure -----------------------------------------------
    def _closure(self):
        """tw[qual] = set of (root, origin_qual, node, how): roots of *qual*
        written directly or through callees."""
        self.tw: Dict[str, Set[Tuple[Tuple[str, str], str, int, str]]] = {
            q: {(r, q, getattr(n, "lineno", 0), how) for r, n, how in fs.writes}
            for q, fs in self.funcs.items()
        }
        changed = True
        rounds = 0
        while changed and rounds < 30:
            changed = False
            rounds += 1
            for q, fs in self.funcs.items():
                cur = self.tw[q]
                for targets, call, argroots, kwroots, recv_root in fs.calls:
                    for t in targets:
                        cs = self.funcs.get(t)
                        if cs is None:
                            continue
                        is_method = len(t.split(".")) >= 3 and t.split(".")[1] in self.repo.classes
                        is_ctor = t.endswith(".__init__") or t.endswith(".__post_init__")
                        static = self._is_static(cs)
                        clsm = self._is_classmethod(cs)
                        if is_ctor and cs.field_writes:
                            cls_name = t.split(".")[1]
                            # the class actually constructed at this call (a subclass may add fields): use the callee's class order
                            built = dotted(call.func).split(".")[-1] if dotted(call.func) else cls_name
                            order = self._ctor_field_order(built if built in self.repo.classes else cls_name)
                            for fld, wnode, how in cs.field_writes:
                                rr = kwroots.get(fld)
                                if rr is None and fld in order and order.index(fld) < len(argroots):
                                    rr = argroots[order.index(fld)]
                                for r2 in rr or []:
                                    if r2 and r2[0] != "fresh":
                                        item = (_real(r2), t, getattr(wnode, "lineno", 0), f"{how} (through constructor argument `{fld}`)")
                                        if item not in cur:
                                            cur.add(item)
                                            changed = True
                        for (root, origin, line, how) in list(self.tw[t]):
                            new = None
                            if root[0] == "global":
                                new = {(root, origin, line, how)}
                            elif root[0] == "closure":
                                # free variable of a nested function: a local / parameter of the enclosing function
                                new = set()
                                if t.startswith(q + "."):
                                    nm = root[1]
                                    if nm in fs.params:
                                        new.add((("param", nm), origin, line, how))
                                    elif nm in fs.local_roots:
                                        for r2 in fs.local_roots[nm]:
                                            if r2[0] != "fresh":
                                                new.add((r2, origin, line, how))
                                    elif nm not in fs.assigned:
                                        new.add((("closure", nm), origin, line, how))
                            elif static and is_method and not isinstance(call.func, ast.Name):
                                pname = root[1]
                                new = set()
                                if pname in cs.params:
                                    idx = cs.params.index(pname)
                                    rr = argroots[idx] if idx < len(argroots) else kwroots.get(pname, set())
                                    for r2 in rr or []:
                                        if r2 and r2[0] != "fresh":
                                            new.add((_real(r2), origin, line, how))
                            else:
                                pname = root[1]
                                new = set()
                                if pname in cs.params:
                                    idx = cs.params.index(pname)
                                    if is_method and not isinstance(call.func, ast.Name):
                                        # bound call: param 0 is the receiver
                                        if idx == 0:
                                            rr = [recv_root] if (recv_root and not clsm) else []
                                        else:
                                            rr = argroots[idx - 1] if idx - 1 < len(argroots) else kwroots.get(pname, set())
                                    elif is_ctor:
                                        if idx == 0:
                                            rr = []  # the fresh object under construction
                                        else:
                                            rr = argroots[idx - 1] if idx - 1 < len(argroots) else kwroots.get(pname, set())
                                    else:
                                        rr = argroots[idx] if idx < len(argroots) else kwroots.get(pname, set())
                                    for r2 in rr or []:
                                        if r2 and r2[0] != "fresh":
                                            new.add((_real(r2), origin, line, how))
                            for item in new:
                                if item not in cur:
                                    cur.add(item)
                                    changed = True

    # ---- queries -----------------------------------------------------------
    def reachable(self, starts: List[str]) -> List[str]:
        seen, todo = [], list(starts)
        while todo:
            q = todo.pop()
            if q in seen or q not in self.funcs:
                continue
            seen.append(q)
            for targets, *_ in self.funcs[q].calls:
                todo.extend(targets)
        return seen
