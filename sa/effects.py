"""Write-set (effect) analysis with receiver provenance, transitive over a
name-resolved call graph of the eyecite package.

For every function we compute which *roots* it may write through:
  ("param", name)   an object reachable from a parameter (incl. self)
  ("global", name)  a module-level object (or a `global` rebinding)
Writes to objects created inside the function (fresh locals) are not effects.

Callee resolution is by name (no execution, no imports of the analysed code):
  f(...)            module-level def / imported eyecite function / class ctor
  x.m(...)          every method named m in any eyecite class (virtual dispatch
                    over-approximated); if none, a builtin-type method: mutators
                    (append, update, ...) write through x, everything else is pure
  p(...)            p a parameter whose default is a module-level function
External modules are classified by the table PURE_EXTERNAL; a call that is in
neither is reported as `unknown_calls` for the client to judge.
"""
from __future__ import annotations

import ast
from typing import Dict, List, Optional, Set, Tuple

from .core import Module, Repo, dotted, norm, walk_local
from .fold import MUTATORS

PURE_BUILTINS = {
    "len", "isinstance", "issubclass", "int", "str", "float", "bool", "list", "set",
    "dict", "tuple", "frozenset", "sorted", "reversed", "enumerate", "zip", "map",
    "filter", "min", "max", "sum", "any", "all", "range", "hash", "id", "type",
    "getattr", "hasattr", "repr", "callable", "iter", "next", "abs", "ord", "chr",
    "cast", "print", "format", "super", "object", "slice", "bytes", "divmod", "round",
    "ValueError", "TypeError", "AttributeError", "KeyError", "IndexError", "Exception",
}
# module aliases whose functions do not write to objects we pass them
PURE_EXTERNAL_ROOTS = {
    "re", "regex", "json", "hashlib", "logging", "logger", "typing", "bisect",
    "datetime", "date", "etree", "lxml", "fast_diff_match_patch", "difflib",
    "partial", "functools", "Template", "Path", "hyperscan", "ahocorasick",
    "SequenceMatcher", "deepcopy", "copy", "asdict", "dataclasses", "field",
    "bisect_left", "bisect_right", "defaultdict", "UserString", "getLogger",
    "process_variables", "recursive_substitute", "courts", "string",
}


class FuncSummary:
    def __init__(self, qual: str, mod: Module, node: ast.FunctionDef):
        self.qual = qual
        self.mod = mod
        self.node = node
        self.params = [a.arg for a in node.args.posonlyargs + node.args.args + node.args.kwonlyargs]
        if node.args.vararg:
            self.params.append(node.args.vararg.arg)
        if node.args.kwarg:
            self.params.append(node.args.kwarg.arg)
        self.writes: List[Tuple[Tuple[str, str], ast.AST, str]] = []  # (root, node, how)
        self.calls: List[Tuple[List[str], ast.Call, List[Optional[Tuple[str, str]]], Optional[Tuple[str, str]]]] = []
        self.unknown_calls: List[ast.Call] = []
        self.global_decl: Set[str] = set()
        self.local_roots: Dict[str, Set[Tuple[str, str]]] = {}


class Effects:
    def __init__(self, repo: Repo):
        self.repo = repo
        self.funcs: Dict[str, FuncSummary] = {}
        self.by_name: Dict[str, List[str]] = {}
        self.methods: Dict[str, List[str]] = {}
        for qual, m, node in repo.all_funcs(include_tests=False):
            fs = FuncSummary(qual, m, node)
            self.funcs[qual] = fs
            parts = qual.split(".")
            if len(parts) == 2:
                self.by_name.setdefault(parts[1], []).append(qual)
            # methods: module.Class.method (one level)
            if len(parts) == 3 and parts[1] in repo.classes:
                self.methods.setdefault(parts[2], []).append(qual)
        for fs in self.funcs.values():
            self._analyse(fs)
        self._closure()

    # ---- per-function ----------------------------------------------------
    def _roots_of(self, fs: FuncSummary, e: ast.AST, depth=0) -> Set[Tuple[str, str]]:
        """Roots an expression's value may alias: set of (kind, name);
        ('fresh','') when the value is created here."""
        if depth > 12:
            return {("fresh", "")}
        if isinstance(e, ast.Name):
            if e.id in fs.params:
                return {("param", e.id)}
            if e.id in fs.local_roots:
                return set(fs.local_roots[e.id]) or {("fresh", "")}
            if e.id in fs.assigned:
                return {("fresh", "")}
            return {("global", e.id)}
        if isinstance(e, (ast.Attribute, ast.Subscript, ast.Starred)):
            return self._roots_of(fs, e.value, depth + 1)
        if isinstance(e, ast.IfExp):
            return self._roots_of(fs, e.body, depth + 1) | self._roots_of(fs, e.orelse, depth + 1)
        if isinstance(e, ast.BoolOp):
            out = set()
            for v in e.values:
                out |= self._roots_of(fs, v, depth + 1)
            return out
        if isinstance(e, ast.NamedExpr):
            return self._roots_of(fs, e.value, depth + 1)
        if isinstance(e, ast.Call):
            fn = dotted(e.func)
            if fn in ("cast", "typing.cast") and len(e.args) == 2:
                return self._roots_of(fs, e.args[1], depth + 1)
            if fn == "getattr" and e.args:
                return self._roots_of(fs, e.args[0], depth + 1)
            if isinstance(e.func, ast.Attribute) and e.func.attr in ("get", "setdefault", "values", "items", "keys", "__getitem__"):
                return self._roots_of(fs, e.func.value, depth + 1)
            return {("fresh", "")}
        return {("fresh", "")}

    def _analyse(self, fs: FuncSummary):
        node = fs.node
        fs.assigned = set()
        for n in walk_local(node):
            if isinstance(n, ast.Name) and isinstance(n.ctx, (ast.Store, ast.Del)):
                fs.assigned.add(n.id)
            elif isinstance(n, ast.ExceptHandler) and n.name:
                fs.assigned.add(n.name)
            elif isinstance(n, (ast.Import, ast.ImportFrom)):
                for a in n.names:
                    fs.assigned.add((a.asname or a.name).split(".")[0])
            elif isinstance(n, (ast.FunctionDef, ast.ClassDef)):
                fs.assigned.add(n.name)
            elif isinstance(n, ast.Global):
                fs.global_decl.update(n.names)
        fs.assigned -= fs.global_decl
        # alias fixpoint for locals
        for _ in range(6):
            changed = False
            for n in walk_local(node):
                binds: List[Tuple[ast.AST, ast.AST]] = []
                if isinstance(n, ast.Assign):
                    for t in n.targets:
                        binds.append((t, n.value))
                elif isinstance(n, ast.AnnAssign) and n.value is not None:
                    binds.append((n.target, n.value))
                elif isinstance(n, ast.NamedExpr):
                    binds.append((n.target, n.value))
                elif isinstance(n, (ast.For, ast.comprehension)):
                    binds.append((n.target, n.iter))
                elif isinstance(n, ast.With):
                    for it in n.items:
                        if it.optional_vars is not None:
                            binds.append((it.optional_vars, it.context_expr))
                for t, v in binds:
                    roots = {r for r in self._roots_of(fs, v) if r[0] != "fresh"}
                    for nm in ast.walk(t):
                        if isinstance(nm, ast.Name) and isinstance(nm.ctx, ast.Store) and nm.id not in fs.params:
                            cur = fs.local_roots.setdefault(nm.id, set())
                            if not roots <= cur:
                                cur |= roots
                                changed = True
            if not changed:
                break
        # writes
        for n in walk_local(node):
            targets: List[ast.AST] = []
            if isinstance(n, ast.Assign):
                targets = list(n.targets)
            elif isinstance(n, (ast.AugAssign, ast.AnnAssign)):
                if not (isinstance(n, ast.AnnAssign) and n.value is None):
                    targets = [n.target]
            elif isinstance(n, ast.Delete):
                targets = list(n.targets)
            flat = []
            for t in targets:
                if isinstance(t, (ast.Tuple, ast.List)):
                    flat += list(t.elts)
                else:
                    flat.append(t)
            for t in flat:
                if isinstance(t, (ast.Attribute, ast.Subscript)):
                    for r in self._roots_of(fs, t.value):
                        if r[0] != "fresh":
                            fs.writes.append((r, n, "store " + norm(t)))
                elif isinstance(t, ast.Name) and t.id in fs.global_decl:
                    fs.writes.append((("global", t.id), n, "global rebinding"))
            if isinstance(n, ast.Call):
                self._call(fs, n)

    def _call(self, fs: FuncSummary, c: ast.Call):
        fn = dotted(c.func)
        args = list(c.args) + [k.value for k in c.keywords]
        argroots: List[Set[Tuple[str, str]]] = [self._roots_of(fs, a) for a in c.args]
        kwroots = {k.arg: self._roots_of(fs, k.value) for k in c.keywords if k.arg}
        # setattr family
        if fn in ("setattr", "object.__setattr__", "delattr") and c.args:
            for r in self._roots_of(fs, c.args[0]):
                if r[0] != "fresh":
                    fs.writes.append((r, c, fn))
            return
        if isinstance(c.func, ast.Name):
            name = c.func.id
            if name in fs.params:
                # callable parameter: resolve through its default, if any
                d = self._param_default(fs, name)
                if d and self.repo.func(f"{fs.mod.name}.{d}") is not None:
                    fs.calls.append(([f"{fs.mod.name}.{d}"], c, argroots, kwroots, None))
                else:
                    fs.unknown_calls.append(c)
                return
            targets = self._resolve_name(fs, name)
            if targets is not None:
                if targets:
                    fs.calls.append((targets, c, argroots, kwroots, None))
                return
            if name in PURE_BUILTINS or name in PURE_EXTERNAL_ROOTS:
                return
            if name in fs.assigned:
                # local callable (nested def / lambda / partial): nested defs
                nested = f"{fs.qual}.{name}"
                if nested in self.funcs:
                    fs.calls.append(([nested], c, argroots, kwroots, None))
                    return
            fs.unknown_calls.append(c)
            return
        if isinstance(c.func, ast.Attribute):
            meth = c.func.attr
            recv = c.func.value
            root = dotted(recv)
            rootname = root.split(".")[0] if root else None
            if rootname and rootname in PURE_EXTERNAL_ROOTS and rootname not in fs.params and rootname not in fs.local_roots:
                return
            if isinstance(recv, ast.Call) and dotted(recv.func) == "super":
                # super().m(...): resolve in bases
                cands = [q for q in self.methods.get(meth, [])]
                if cands:
                    fs.calls.append((cands, c, argroots, kwroots, ("param", fs.params[0]) if fs.params else None))
                return
            # class-qualified call  Class.method(...)
            if rootname and rootname in self.repo.classes and not (rootname in fs.params):
                cands = [q for q in self.methods.get(meth, []) if q.split(".")[1] in self.repo.mro(rootname)]
                if cands:
                    fs.calls.append((cands, c, argroots, kwroots, None))
                    return
            recv_roots = self._roots_of(fs, recv)
            cands = self.methods.get(meth, [])
            if cands and meth not in ("get", "update", "items", "keys", "values", "append", "pop", "strip", "lower", "upper", "replace", "split", "join", "format", "startswith", "endswith", "isdigit"):
                for rr in recv_roots:
                    fs.calls.append((list(cands), c, argroots, kwroots, rr))
                return
            if meth in MUTATORS:
                for r in recv_roots:
                    if r[0] != "fresh":
                        fs.writes.append((r, c, f"mutator .{meth}()"))
            return
        fs.unknown_calls.append(c)

    def _param_default(self, fs: FuncSummary, name: str) -> Optional[str]:
        a = fs.node.args
        pos = a.posonlyargs + a.args
        for p, d in zip(pos[len(pos) - len(a.defaults):], a.defaults):
            if p.arg == name and isinstance(d, ast.Name):
                return d.id
        for p, d in zip(a.kwonlyargs, a.kw_defaults):
            if p.arg == name and isinstance(d, ast.Name):
                return d.id
        return None

    def _resolve_name(self, fs: FuncSummary, name: str) -> Optional[List[str]]:
        """Qualnames a bare-name call may reach; [] = known, nothing to
        follow (dataclass ctor without __post_init__); None = not ours."""
        m = fs.mod
        # lazy in-function imports
        for n in walk_local(fs.node):
            if isinstance(n, ast.ImportFrom) and n.module and n.module.startswith("eyecite"):
                for a in n.names:
                    if (a.asname or a.name) == name:
                        q = f"{n.module.split('.')[-1]}.{a.name}"
                        return [q] if q in self.funcs else self._ctor(a.name)
        if f"{m.name}.{name}" in self.funcs:
            return [f"{m.name}.{name}"]
        origin = m.imports.get(name)
        if origin and origin.startswith("eyecite"):
            parts = origin.split(".")
            q = f"{parts[-2]}.{parts[-1]}" if len(parts) >= 3 else None
            if q in self.funcs:
                return [q]
            if parts[-1] in self.repo.classes:
                return self._ctor(parts[-1])
            # `from eyecite import clean_text` style re-export
            for cand in self.by_name.get(parts[-1], []):
                return [cand]
            return None
        if name in self.repo.classes and self.repo.classes[name].module is m:
            return self._ctor(name)
        return None

    def _ctor(self, cls: str) -> Optional[List[str]]:
        if cls not in self.repo.classes:
            return None
        out = []
        for meth in ("__init__", "__post_init__"):
            for c in self.repo.mro(cls):
                ci = self.repo.classes.get(c)
                if ci and meth in ci.methods:
                    out.append(f"{ci.module.name}.{c}.{meth}")
        return out

    # ---- transitive closure -----------------------------------------------
    def _closure(self):
        """tw[qual] = set of (root, origin_qual, node, how): roots of *qual*
        written directly or through callees."""
        self.tw: Dict[str, Set[Tuple[Tuple[str, str], str, int, str]]] = {
            q: {(r, q, getattr(n, "lineno", 0), how) for r, n, how in fs.writes}
            for q, fs in self.funcs.items()
        }
        changed = True
        rounds = 0
        while changed and rounds < 30:
            changed = False
            rounds += 1
            for q, fs in self.funcs.items():
                cur = self.tw[q]
                for targets, call, argroots, kwroots, recv_root in fs.calls:
                    for t in targets:
                        cs = self.funcs.get(t)
                        if cs is None:
                            continue
                        is_method = len(t.split(".")) >= 3 and t.split(".")[1] in self.repo.classes
                        is_ctor = t.endswith(".__init__") or t.endswith(".__post_init__")
                        for (root, origin, line, how) in list(self.tw[t]):
                            new = None
                            if root[0] == "global":
                                new = {(root, origin, line, how)}
                            else:
                                pname = root[1]
                                new = set()
                                if pname in cs.params:
                                    idx = cs.params.index(pname)
                                    if is_method and not isinstance(call.func, ast.Name):
                                        # bound call: param 0 is the receiver
                                        if idx == 0:
                                            rr = [recv_root] if recv_root else []
                                        else:
                                            rr = argroots[idx - 1] if idx - 1 < len(argroots) else kwroots.get(pname, set())
                                    elif is_ctor:
                                        if idx == 0:
                                            rr = []  # the fresh object under construction
                                        else:
                                            rr = argroots[idx - 1] if idx - 1 < len(argroots) else kwroots.get(pname, set())
                                    else:
                                        rr = argroots[idx] if idx < len(argroots) else kwroots.get(pname, set())
                                    for r2 in rr or []:
                                        if r2 and r2[0] != "fresh":
                                            new.add((r2, origin, line, how))
                            for item in new:
                                if item not in cur:
                                    cur.add(item)
                                    changed = True

    # ---- queries -----------------------------------------------------------
    def reachable(self, starts: List[str]) -> List[str]:
        seen, todo = [], list(starts)
        while todo:
            q = todo.pop()
            if q in seen or q not in self.funcs:
                continue
            seen.append(q)
            for targets, *_ in self.funcs[q].calls:
                todo.extend(targets)
        return seen
