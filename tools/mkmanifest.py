#!/venv/bin/python
"""Regenerate /verif/MANIFEST.json from the table below (single source of truth
for what is claimed).  Run after adding a property module under sa/props/."""
import json
import subprocess
from pathlib import Path

V = Path(__file__).resolve().parent.parent

CLAIMS = {
    "C06": dict(
        cat="proof",
        text="Proof by structural induction over the single left fold in resolve.resolve_citations: obligations O1-O6 "
        "(one loop over the input, one append site under a truthiness guard, no other mutation of the mapping in the "
        "function or its callees, provenance of every default-resolver return value, disjoint dispatch classes, "
        "Resource/citation hash read-sets) are re-decided on /repo's AST on every run and together imply the partition "
        "statement for every citation list.",
        note="Trusted: the checker itself, Python semantics of list.append / dict insertion order / defaultdict(list), no "
        "sha256 or hash(int) collisions. Default resolvers only.",
        tech="static analysis: AST role binding + path enumeration + provenance lattice + transitive write-set (effects) analysis",
        ref="DESIGN.md section 2/C06",
    ),
    "C07": dict(
        cat="other",
        text="Every clause is decided structurally on the resolvers' source: uniqueness guard on de-duplicated resources at "
        "every candidate selection, candidate predicates (same pair, reporter+volume / party-name match, no extra filter), "
        "return-value provenance, `last = resolution` on every path of the fold body, id resolver gated by truthiness and "
        "the pin-cite validator, validator rejects placeholder page / non-numeric pin / both window sides. The numeric "
        "window is decided as presence and two-sidedness, not by evaluating it; hence 'other', not 'proof'.",
        note="Whether strip_punct/containment is the right notion of a name match and the window width are not decided. "
        "Default resolvers only.",
        tech="static analysis: path-sensitive guard extraction (control conditions common to all paths reaching a statement) + provenance",
        ref="DESIGN.md section 2/C07",
    ),
    "C08": dict(
        cat="proof",
        text="Same fold argument as C06: with state S_i=(RES,RFC,LAST), obligations O1,O2,O3,O7-O10 show S_i=F(S_{i-1},c_i) "
        "for a deterministic F that reads nothing else, RES grows only at list tails / by new keys, and no reachable "
        "callee writes citations, fold state or globals; hence resolving a prefix equals the restriction of resolving "
        "the whole list, for every list.",
        note="Trusted: the checker, Python list/dict semantics, purity/determinism of re, str, set, json, hashlib builtins "
        "as classified in sa/effects.py. Default resolvers only.",
        tech="static analysis: frame (read-set) check of the fold body + transitive effect analysis over the name-resolved call graph + set-order leak analysis",
        ref="DESIGN.md section 2/C08",
    ),
    "C09": dict(
        cat="proof",
        text="annotate_citations is a cursor loop with invariant strip(join(out)) = T[:cursor]; every acyclic path of the loop "
        "body is simulated with version counters and order facts (killed by any assignment, generated only by recognised "
        "idioms and two mechanically verified callee summaries) and must establish cursor<=start<=end and piece=T[start:end] "
        "at the emission, set cursor=end afterwards, and leave cursor/out untouched when nothing is emitted; the tail completes "
        "T. All paths discharged => additive for all inputs, modes, diff engines and source texts.",
        note="Default annotator; spans given with 0<=start<=end; before/after do not occur in the texts. Trusted: checker, "
        "Python slicing/join/sorted semantics, re.sub replacing non-overlapping matches and copying the rest.",
        tech="static analysis: path enumeration + gen/kill dataflow of order facts (difference constraints closed by hand) + regex-AST shape check of the wrap substitution",
        ref="DESIGN.md section 2/C09",
    ),
    "C10": dict(
        cat="other",
        text="Only the first sentence (no source text) is decided: on the loop-body paths without offset updater, overlap or "
        "unbalanced verdict exactly one piece before+T[start:end]+after is emitted with the annotation's own offsets and "
        "strings, over sorted(annotations), appended at the tail. Of the source-text clauses the monotonicity of the offset "
        "translation is decided for every sequence of diff steps (append-only range table + inductive invariant of the "
        "table-building fold, checked per path in linear arithmetic); the alignment (exact enclosure) depends on "
        "diff-library output values and is not decided.",
        note="Alignment clause not decided (values of fast_diff_match_patch/difflib results and two bisections); structural necessary "
        "conditions of it (engine configuration, bisect sides, clamped index, pure update) are checked.",
        tech="static analysis: path enumeration with symbolic versions of start/end/span; def-use of before/after; iteration-source check; "
        "per-path linear-arithmetic invariant check of the range-table fold",
        ref="DESIGN.md section 2/C10",
    ),
    "C11": dict(
        cat="other",
        text="Structural part: in checked modes every emitted span passed the balance oracle after its last assignment (else "
        "`continue`), wrap mode never drops an annotation and routes unbalanced spans through the additive wrapper with "
        "(after, before), text content unchanged (all C09 obligations), and the oracle fails closed (True only without angle "
        "brackets or after a completed lxml parse inside one root; only XMLSyntaxError caught -> False).",
        note="Not decided: that balanced pieces at these offsets keep the whole document well-formed (needs lxml on concrete "
        "trees); the 10-character tolerance.",
        tech="static analysis: path-sensitive must-facts (balance verdict valid for the current span value) + call-argument/parameter agreement + exception-handler coverage",
        ref="DESIGN.md section 2/C11",
    ),
    "C12": dict(
        cat="other",
        text="The loop invariants P1-P4 of Tokenizer.tokenize (concat(ALL)=text[:cursor]; previous token is ALL[-1] and ends at the "
        "cursor; index list mirrors ALL; candidates sorted by start) are decided exactly on every acyclic path of the loop body over "
        "symbolic positions with difference constraints; plus tail, no subclass overrides, extract_tokens yields only get_token "
        "results, append_text split/re-join identity (structural), merge leaves offsets alone, from_match text/offset agreement and "
        "Hyperscan slice rebasing. 'other' rather than proof: str.split/re-join identity and regex group-1 participation are assumed here.",
        note="Assumes str.split(sep)+re-join identity, group 1 participates in every extractor match (C02), stable sorted(). Shipped "
        "tokenizers only.",
        tech="static analysis: path enumeration + symbolic cursor simulation with difference constraints; class-hierarchy override check",
        ref="DESIGN.md section 2/C12",
    ),
    "C13": dict(
        cat="proof",
        text="For each of the ~6,800 generated extractors with filter strings the regular-language inclusion "
        "L(pattern, flags) <= Sigma* strings Sigma* is decided exactly (Thompson NFA of the pattern's syntax tree x Aho-Corasick "
        "automaton of the strings, exhaustive search of the product for an accepting run that avoids every string; a witness string is "
        "produced when one exists), case-insensitive extractors over the ASCII texts the lower-cased filter is consulted for; the filter "
        "plumbing (own extractor list, partition truth table, same normalisation both sides, Automaton.iter under a non-emptiness guard, "
        "only additions, every pair stored, reference order) is decided structurally. All obligations discharged => an extractor is "
        "skipped only if its pattern cannot match, and the selected extractors run in reference order.",
        note="Trusted: the NFA semantics in sa/rx.py for the sre subset the patterns use, re._parser, IGNORECASE fold tables from _sre / "
        "re._casefix, pyahocorasick iter() reporting every occurrence. The pattern table is materialised by importing eyecite.tokenizers "
        "from /repo (generated source); no pattern is matched against text.",
        tech="static analysis: regex syntax tree -> NFA x Aho-Corasick product reachability (language inclusion with witness), truth-table evaluation of comprehension predicates, path-sensitive guard check",
        ref="DESIGN.md section 2/C13",
    ),
    "C15": dict(
        cat="other",
        text="Determinism is decided through its structural sources over the mypy-resolved call graph from get_citations (67+ "
        "functions incl. properties, stored constructors, nested callbacks): every use of every set-typed expression is classified "
        "(no iteration order reaches a value), builtin hash() of non-ints is confined to helper-class __hash__, the transitive "
        "write-set of get_citations over non-fresh objects contains only the two hasattr-guarded memos (no module-level, tokenizer, "
        "extractor or argument writes), and ambient reads are enumerated (two clock reads, stated as an assumption). 'other': "
        "thread-safety of C extensions and the method purity tables are assumed, not proved.",
        note="Assumes regex/lxml/pyahocorasick/hyperscan objects are safe for concurrent reads; same calendar year for both runs; "
        "classification tables of builtin/third-party calls in sa/effects.py.",
        tech="static analysis: type-resolved call graph (mypy as library) + transitive effect analysis with receiver provenance (fresh / element / parameter / global) + set-order leak classification",
        ref="DESIGN.md section 2/C15",
    ),
    "C16": dict(
        cat="other",
        text="Decided on the class definitions: one equality derived from __hash__() (all citation dataclasses eq=False, dunders undecorated "
        "and stateless), value-hash read-sets (case citations exactly groups[volume,page,reporter] + guessed edition; none reads "
        "metadata/token/index/spans/year), class tag, identity hash for id./unknown/placeholder-page, placeholder normalisation in a "
        "__post_init__ every case citation passes through, guess_edition reached for every extracted resource citation and guessing a "
        "single candidate whatever the year, corrected_reporter prefers the guess, canonical sha256 serialisation.",
        note="Not decided: that each reporters-db variation is extracted with its edition as only candidate (database x pattern "
        "behaviour); the re-parse / fixed-point clause of corrected_citation(). No sha256 / hash(int) collisions.",
        tech="static analysis: transitive read-set of __hash__ through self-method calls incl. subclass overrides, path-sensitive identity-hash check, MRO/super-chain check, call-graph reachability of guess_edition",
        ref="DESIGN.md section 2/C16",
    ),
    "C18": dict(
        cat="other",
        text="Who-may-write rule for the numeric year (mypy receiver types): only get_year(<text>) or the parallel copy, paired per path with "
        "the textual year from the same text; get_year's non-None returns dominated by both range tests with bounds 1600 and "
        "date.today().year+1, int() under except ValueError, year groups exactly \\d{4}; guess_edition: single writer, exact-before-variation "
        "candidates, year filter only under `len>1 and year`, guess = candidates[0] under len==1, no path declines a single candidate; "
        "disambiguate_reporters is a sub-sequence filter and the flag is used once, last.",
        note="Not decided: that a year in every position is found by the regexes; includes_year against database dates.",
        tech="static analysis: typed who-may-write check, path-sensitive guard/dominance checks, constant folding through module-level names, regex-AST shape of the year groups",
        ref="DESIGN.md section 2/C18",
    ),
    "C03": dict(
        cat="other",
        text="Decided structurally: every list get_citations returns passed through filter_citations and then only through order-preserving "
        "removal; filter_citations' output is a sub-sequence of sorted(citations, key=K) by loop shape (tail pops then one append of the loop "
        "variable), de-duplicated through a dict keyed by span(); every removal is of a ReferenceCitation (each repeated pop re-tests the tail); "
        "K is the citation's own position; scans that extend span() over a pin cite stop at the next special token.",
        note="Not decided: that spans of distinct citations never overlap in general (value-level: how far a pin cite extends vs. where the "
        "next token starts); idempotence beyond the structure. Tokens never overlap is C12.",
        tech="static analysis: must-pass-through check on enumerated paths, loop-shape proof of sortedness, guard extraction for removals",
        ref="DESIGN.md section 2/C03",
    ),
    "C17": dict(
        cat="other",
        text="Provenance of every textual metadata value (attribute stores and metadata= dictionaries in helpers/find): generated only from "
        "groups of a match over text that match_on_tokens assembles from tokens adjacent to the citation (or the citation token's own groups), "
        "closed under strip/slice/or-None and two helpers verified to return substrings of their argument; extent pairing (full span extended "
        "over the same match on every storing path; party names stored with the start from the same scan); copies between citations only "
        "under equality of *defined* full-span starts, from the immediately preceding FullCaseCitation.",
        note="Not decided: that the character ranges coincide (span arithmetic such as len(plaintiff)+1 is value-level; seeded change C17-2 is of that kind and is not detected).",
        tech="static analysis: provenance grammar over def-use chains with callee summaries, per-path pairing check, typed Optional-operand guard check",
        ref="DESIGN.md section 2/C17",
    ),
    "C19": dict(
        cat="other",
        text="Non-interference by def-use: markup text and the two offset translators are read only to derive the cleaned text and on the reference "
        "paths, tokens come from tokenize(self.plain_text) only; reference paths create only fresh ReferenceCitation objects for a "
        "FullCaseCitation; both name-pattern sites guard by truthiness + is_valid_name and re.escape; scans start after the citation and all "
        "stored offsets are rebased / translated back from the translated origin; references never displace other citations (filter rules); the "
        "current citation is appended last in its iteration.",
        note="Not decided: offset round trips plain<->markup (diff values); that the style-tag regex finds the right occurrences.",
        tech="static analysis: attribute def-use over typed receivers, constructor-provenance of appended objects, slice-origin rebasing check, guard extraction",
        ref="DESIGN.md section 2/C19",
    ),
    "C04": dict(
        cat="other",
        text="A discipline check, not a totality proof: over the type-resolved call graph from the three entry points (80+ functions) every "
        "site of nine risk classes is enumerated and must be discharged by a listed idiom -- explicit raises (configuration-only guard, "
        "table-agreement unreachability, re-raise), unchecked regex match results, dereferences of regex groups that do not participate in "
        "every match (computed on the pattern syntax tree incl. the wrapper match_on_tokens adds), reads of the None-able page group, "
        "int()/float() conversions, constant-index subscripts, literal group keys against all ~6,800 generated patterns, dynamic text in "
        "patterns/replacement templates, metadata keys splatted into Metadata(**..).",
        note="Not decided: exceptions from C extensions (lxml, hyperscan, diff) on hostile bytes, MemoryError/RecursionError, regex engine "
        "limits. Default resolvers/annotator, shipped tokenizers; annotation spans within the text.",
        tech="static analysis: path-sensitive guard dominance (None-discipline) over a typed call graph + regex-AST group participation + cross-language (Python match variable <-> pattern) agreement",
        ref="DESIGN.md section 2/C04",
    ),
    "C20": dict(
        cat="other",
        text="clean_text is shown to be a fold carrying only the text (composition law for all step lists), unknown steps raise ValueError "
        "before anything is applied, the lookup table agrees with the functions, each substitution cleaner is re.sub(C{n,}, R, text) of the "
        "shape for which idempotence / no-remaining-run / content preservation follow by a two-line lemma (decided on the pattern syntax tree), "
        "and the html cleaner queries the parsed tree unmodified with the four excluded parents, joined in document order.",
        note="Not decided: lxml parsing / XPath evaluation on concrete trees (the visible-text clause proper).",
        tech="static analysis: loop-carried-state check, path enumeration, regex-AST shape lemma",
        ref="DESIGN.md section 2/C20",
    ),
    "C14": dict(
        cat="other",
        text="Structural part: every Hyperscan hit is re-matched with the extractor's own Python pattern, the re-match is checked, tokens are "
        "built by the same get_token/from_match with the slice origin as offset, byte->str offsets come from decoding and misaligned hits are "
        "dropped; byte/character class soundness of all ~6,800 generated patterns under the actual flag expression (regex syntax trees); "
        "cache-load handler set covers the root of the installed library's exception family, failed load => unset => recompile; cache key "
        "digests the very expression/flag lists passed to compile, in order. Four open known findings (byte-mode boundary class and dot "
        "atoms, two [§|s] Pub. L. patterns) are reported as KNOWN-FINDING.",
        note="Not decided: candidate-by-candidate agreement with the reference tokenizer (Hyperscan matching semantics on concrete texts); "
        "that a loaded cache database behaves like a fresh one; atomic cache writes. \\s \\d \\w atoms are outside C14's domain.",
        tech="static analysis: regex-AST classification of atoms (one character vs one byte, re-alignable or not) over the generated pattern table; exception-handler coverage against the introspected library hierarchy; def-use of the cache key",
        ref="DESIGN.md section 2/C14",
    ),
    "C01": dict(
        cat="other",
        text="Only the plumbing without which no input can satisfy C01 is decided: token-kind dispatch exhaustive/exclusive against the classes "
        "the generated extractors construct; source-tag table agreement; every m[g] / groups() unpack / token.groups[key] read against the "
        "linked pattern (all ~6,800 generated patterns for token.groups); every metadata field store / key against the declared Metadata "
        "dataclass of the static class; short/full pattern pairing; forward/backward scan agreement in match_on_tokens; current citation "
        "appended last (parallel-cite detection).",
        note="NOT decided (the bulk of C01): that each of the ~3,900 reporter strings is matched with the right span and group contents, that "
        "the metadata regexes capture the written components, span arithmetic -- which strings a regex matches and integer values.",
        tech="static analysis: writer/reader table agreement across modules and across languages (Python <-> regex syntax trees), typed field-existence check, sibling-branch agreement",
        ref="DESIGN.md section 2/C01",
    ),
    "C02": dict(
        cat="other",
        text="Decided: slice-origin rebasing at every site where a regex runs on a slice (and the scanned string is the untransformed slice); "
        "token text/offset agreement and group-1 participation in all generated patterns; fallback / min-max structure of the three span "
        "accessors; sign analysis of every span override (end = base end + non-negative amount, start = base start - non-negative amount) "
        "including infeasibility of extract_pin_cite's None end (its pattern is nullable).",
        note="Not decided: that offsets computed from match positions and summed word lengths land on the right characters for every text "
        "(value-level), the party-name length estimate in add_defendant, markup-mode round trips (diff).",
        tech="static analysis: linear-form sign analysis over def-use chains with a small non-negativity grammar, regex nullability / group participation on syntax trees, rebasing-sibling agreement",
        ref="DESIGN.md section 2/C02",
    ),
}

NA = {
    "C05": "end-to-end grouping depends on which strings extraction produces for generated documents; no static bound in "
    "reach; its safety half (no wrong attachment, one resource per equal citation, backward-only) is decided as C06-C08",
}

ENGINES = [
    ("core", "sa/core.py", "loader, class hierarchy/MRO, obligation bookkeeping, known findings, evidence"),
    ("paths", "sa/paths.py", "path enumeration over structured statements; guards common to all paths reaching a statement"),
    ("fold", "sa/fold.py", "role binding for the resolution fold; provenance lattice of resolver return values"),
    ("effects", "sa/effects.py", "write-set analysis with receiver provenance, transitive over a name-resolved call graph"),
    ("setorder", "sa/setorder.py", "classification of every use of a set-valued expression (order leak vs. order-insensitive)"),
    ("annot", "sa/annot.py", "cursor-loop model of annotate_citations: per-path symbolic state, order facts, callee summaries"),
    ("selftest", "sa/selftest.py + sa/mutants.py", "thorough tier: breaking/benign variants of /repo analysed in scratch copies (two-way validation of the checker)"),
    ("typed", "sa/typed.py", "one mypy build of /repo/eyecite per run: expression types keyed by position (receiver types, set types, Optional operands)"),
    ("rx", "sa/rx.py", "regex-AST engine: NFA over symbolic alphabet, Aho-Corasick product search with witness, group participation"),
    ("materialize", "sa/materialize.py", "build step: dumps the generated extractor table (patterns, flags, strings, editions) from /repo"),
    ("guards", "sa/guards.py", "path-sensitive dominance of a use by a truthiness / not-None test (local and/ternary guards + enumerated paths)"),
    ("hashrules", "sa/hashrules.py", "equality/hash discipline of citation classes (read-sets, class tag, identity cases)"),
]


def main():
    props = [json.loads(l) for l in (V / "properties.jsonl").read_text().splitlines() if l.strip()]
    ids = [p["id"] for p in props]
    fixes = subprocess.run(
        ["git", "-C", "/repo", "log", "--format=%H %s", "--reverse", "--grep=^fix:"], capture_output=True, text=True
    ).stdout.strip().splitlines()
    checks = []
    for pid in ids:
        c = CLAIMS.get(pid)
        if not c or not (V / "sa" / "props" / f"{pid.lower()}.py").exists():
            continue
        checks.append(
            {
                "property_id": pid,
                "quick_cmd": f"./check {pid} --tier quick",
                "thorough_cmd": f"./check {pid} --tier thorough",
                "evidence_file": f"/verif/evidence/{pid}.json",
                "replay_cmd_template": f"./check {pid} --replay {{path}}",
                "engine": "sa",
                "level_claimed": {"category": c["cat"], "text": c["text"], "design_ref": c["ref"]},
                "level_note": c["note"],
                "technique": c["tech"],
            }
        )
    claimed = {c["property_id"] for c in checks}
    na = []
    for pid in ids:
        if pid in claimed:
            continue
        na.append({"property_id": pid, "reason": NA.get(pid, "check under construction (DESIGN.md section 2); not claimed until its rules run on /repo")})
    served = {}
    man = {
        "version": 1,
        "setup_cmd": "/venv/bin/python -m compileall -q sa >/dev/null 2>&1; /venv/bin/python -c \"import mypy, ast\"",
        "hooks": {
            "guard": "EYECITE_VERIF",
            "enable": "none needed: the analysis reads /repo's source and instruments nothing (the guard name exists for the schema only)",
            "baseline_off_cmd": "cd /repo && /venv/bin/python -m pytest -ra -q -p no:cacheprovider --timeout=900 --continue-on-collection-errors",
            "source_commits": [l.split()[0] for l in fixes],
            "add_only": False,
        },
        "engines": [
            {"name": n, "path": p, "serves_properties": sorted(claimed), "kind_free_text": k} for n, p, k in ENGINES
        ],
        "checks": checks,
        "notes": "Static analysis only (DESIGN.md). source_commits lists the unguarded `fix:` commits in /repo (genuine defects "
        "repaired; recorded in known_findings.json as fixed); there are no guarded hook commits.",
        "not_applicable": na,
    }
    (V / "MANIFEST.json").write_text(json.dumps(man, indent=1) + "\n")
    print(f"claimed {sorted(claimed)}; not_applicable {[x['property_id'] for x in na]}")


if __name__ == "__main__":
    main()
