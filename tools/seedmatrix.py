#!/venv/bin/python
"""Run every check against every seeded change (/verif/seeded/*/patch.diff applied to a scratch
copy of /repo/eyecite) and record which rules report it.  Writes seeded/MATRIX.md and updates each
meta.json `detected_by`.  Analysis only -- nothing is executed."""
import concurrent.futures as cf
import json
import multiprocessing as mp
import shutil
import sys
from pathlib import Path

V = Path(__file__).resolve().parent.parent
sys.path.insert(0, str(V))
from sa.selftest import analyse, make_variant  # noqa: E402

PROPS = [f"C{i:02d}" for i in range(1, 21) if i != 5]


def base(prop):
    return prop, sorted(analyse(prop, Path("/repo")))


def one(args):
    seed, prop = args
    d = make_variant(Path("/repo"), {"id": seed, "patch": f"seeded/{seed}/patch.diff"})
    if d is None:
        return seed, prop, None
    try:
        return seed, prop, sorted(analyse(prop, d))
    finally:
        shutil.rmtree(d, ignore_errors=True)


def main():
    seeds = sorted(p.name for p in (V / "seeded").iterdir() if (p / "patch.diff").exists())
    only = sys.argv[1:]
    if only:
        seeds = [s for s in seeds if s in only]
    ctx = mp.get_context("fork")
    with cf.ProcessPoolExecutor(max_workers=14, mp_context=ctx) as ex:
        bases = dict(ex.map(base, PROPS))
        jobs = [(s, p) for s in seeds for p in PROPS]
        res = list(ex.map(one, jobs, chunksize=2))
    table = {}
    for seed, prop, fail in res:
        if fail is None:
            table.setdefault(seed, {})["_patch"] = "does not apply"
            continue
        new = [tuple(x) for x in fail if tuple(x) not in {tuple(b) for b in bases[prop]}]
        if new:
            table.setdefault(seed, {})[prop] = sorted({r for r, _ in new})
        else:
            table.setdefault(seed, {})
    lines = ["# Seeded changes x checks", "",
             "Each row: a confirmed regression from a sub-agent (patch.diff + demo.py in the directory). Cells: rules of that property's check that "
             "report a *new* undischarged obligation on the patched scratch copy (empty = the check stays silent).", "",
             "| seed | own property detects | rules (own property) | also reported by |", "|---|---|---|---|"]
    for seed in seeds:
        row = table.get(seed, {})
        own = seed.split("-")[0]
        det = row.get(own)
        others = {p: r for p, r in row.items() if p != own and not p.startswith("_")}
        lines.append(f"| {seed} | {'yes' if det else 'NO'} | {', '.join(det or [])} | {', '.join(f'{p}({len(r)})' for p, r in sorted(others.items()))} |")
        mp_ = V / "seeded" / seed / "meta.json"
        if mp_.exists():
            meta = json.loads(mp_.read_text())
            meta["detected_by"] = {p: r for p, r in row.items() if not p.startswith("_")}
            mp_.write_text(json.dumps(meta, indent=1))
    (V / "seeded" / "MATRIX.md").write_text("\n".join(lines) + "\n")
    print("\n".join(lines))


if __name__ == "__main__":
    main()
