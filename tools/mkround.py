#!/venv/bin/python
"""Prepare a round of independent sub-agent tasks: scratch worktrees of /repo HEAD under <dir> and one prompt file per agent.

usage: tools/mkround.py /tmp/mut5 breaking [C01 C02 ...]   -> <dir>/<id>, <dir>/<id>.prompt, <dir>/<id>-out/
       tools/mkround.py /tmp/mut5 benign   [module ...]   -> <dir>/B-<module>, ...

The prompts contain only the property text (from properties.jsonl) and one-line summaries of ideas already delivered for it
(seeded/*/notes.md) -- nothing about /verif's checks."""
import json
import subprocess
import sys
from pathlib import Path

V = Path(__file__).resolve().parent.parent

BREAK = """You are helping test a verification tool by writing a realistic, subtle REGRESSION for the open-source Python library freelawproject/eyecite (legal citation extractor). You work ONLY inside your own scratch git worktree at {wt} (a checkout of the library; the package is in {wt}/eyecite, tests in {wt}/tests). Do NOT read or touch /repo, /verif, or any other {root}/* directory. Write your outputs to {out}/.

The library is supposed to satisfy this semantic property:

-----
{pid} — {title}

STATEMENT: {statement}

QUANTIFIER: {quant}

ALREADY TAKEN (other people already delivered these ideas for this property; yours must be DIFFERENT in mechanism and, if possible, in code site):
{taken}

Prefer changes that look like a legitimate refactoring, performance optimisation or small feature, and where the defect arises from the interaction of the new code with an existing assumption elsewhere.

-----

YOUR TASK: produce TWO independent source changes (each a separate patch against the unmodified checkout, touching different code sites / mechanisms) to the library code under {wt}/eyecite/ such that each change:
 1. BREAKS the property above (for some input / history / configuration),
 2. still imports fine and PASSES the complete existing test suite, which you run from the worktree root with:
      cd {wt} && /venv/bin/python -m pytest -q -p no:cacheprovider --timeout=900 tests
    (expect "50 passed"; when run from the worktree root, `import eyecite` resolves to the worktree copy -- verify with /venv/bin/python -c "import eyecite; print(eyecite.__file__)" from that directory),
 3. looks like something a developer could plausibly commit (a refactoring, "optimisation", "simplification", small feature or bug-fix attempt gone wrong) -- not sabotage with an obviously absurd constant, and
 4. needs something SPECIFIC to manifest: an unusual input, a multi-step sequence of operations, a particular ordering/history, a rare configuration, or two cooperating code sites that each look fine alone. Changes that ordinary use (or the existing tests) would expose at once are not wanted.

For each change write a small demonstration program (plain Python script using only the library and the stdlib, run as `cd {wt} && /venv/bin/python {out}/demoN.py`) that exits 0 on the unmodified checkout and exits non-zero (assertion failure showing the property violated) with the change applied. The demo must check the PROPERTY as stated (not an implementation detail).

Procedure for each change N in {{1,2}}:
  - start from a clean tree (`git -C {wt} checkout -- . && git -C {wt} status --short` must be empty),
  - edit files under eyecite/ only (do not edit tests/),
  - run the full test suite: must be 50 passed,
  - run your demo: must fail; then save the diff, `git checkout -- .`, confirm the demo passes on the clean tree, then re-apply,
  - save the patch: `git -C {wt} diff > {out}/patchN.diff`,
  - save the demo as {out}/demoN.py,
  - write {out}/notesN.md: 3-8 lines: what the change is, why it breaks the property, what is needed for it to manifest, the exact commands you ran and their results,
  - restore the clean tree before the next change.
IMPORTANT: never use `git stash` (the stash is shared between worktrees of other people working in parallel); use `git diff > file; git checkout -- .; git apply file` instead. IMPORTANT: a script run by path does not have the current directory on sys.path, so each demo must start with `import os, sys; sys.path.insert(0, os.getcwd())` and assert that `eyecite.__file__` is under os.getcwd(), so that it tests the worktree copy.
Leave the worktree clean at the end (git checkout -- .). Python to use: /venv/bin/python (3.12, has the library's dependencies incl. hyperscan, pyahocorasick, lxml, regex). There is no network. Do not install anything.

If after serious effort you can only produce one valid change, deliver one and say so. In your final answer list, per change: files/functions touched, one-sentence description, and confirmation of (tests 50 passed, demo fails with / passes without).
"""

BENIGN = """You are helping test a verification tool for the open-source Python library freelawproject/eyecite (legal citation extractor) by producing BEHAVIOUR-PRESERVING refactorings. You work ONLY inside your own scratch git worktree at {wt} (package in {wt}/eyecite, tests in {wt}/tests). Do NOT read or touch /repo, /verif, or any other {root}/* directory. Write outputs to {out}/.

YOUR TASK: produce FOUR independent changes (each a separate patch against the unmodified checkout) to the file(s) {files} that a maintainer could plausibly commit and that do NOT change observable behaviour for ANY input. This round's theme: {theme}

For each change N in {{1,2,3,4}}:
  - start from a clean tree (`git -C {wt} checkout -- .`),
  - edit only files under eyecite/,
  - run the full suite: `cd {wt} && /venv/bin/python -m pytest -q -p no:cacheprovider --timeout=900 tests` (must be 50 passed),
  - save `git -C {wt} diff > {out}/patchN.diff`,
  - write {out}/notesN.md: what was changed and a short argument why behaviour is identical for all inputs,
  - restore the clean tree.

The behaviour must be identical for ALL inputs, including exceptions raised, evaluation order of side effects, results for None/empty values, and results across processes/hash seeds/threads. Be careful: a change that looks harmless but alters behaviour on some rare input is NOT wanted here; if you are not sure, pick another change. At least THREE of the four must be non-trivial (touch control flow, move code between functions/modules, add an import of a standard-library helper, or add a small feature behind a default-off parameter).

Never use `git stash`. Python: /venv/bin/python. No network. Leave the worktree clean. In your final answer list the four changes (one line each) and confirm the suite result for each.
"""

FEATURE = """You are helping test a verification tool for the open-source Python library freelawproject/eyecite (legal citation extractor). You work ONLY inside your own scratch git worktree at {wt} (package in {wt}/eyecite, tests in {wt}/tests). Do NOT read or touch /repo, /verif, or any other {root}/* directory. Write outputs to {out}/.

YOUR TASK: produce THREE independent, realistic commits (each a separate patch against the unmodified checkout) to the file(s) {files} of the kind a maintainer really merges: a small FEATURE, a BUG FIX, a robustness improvement, a performance optimisation, better error messages/logging, or support for one more input form. Unlike a refactoring, each commit MAY change observable behaviour in the way its description says -- but it must keep EVERY ONE of the library's semantic properties listed below true for ALL inputs. In other words: a good commit that a property-based test-suite for these properties would accept.

THE PROPERTIES THAT MUST STILL HOLD (for all inputs, configurations, histories, hash seeds, threads):
{props}

For each commit N in {{1,2,3}}:
  - start from a clean tree (`git -C {wt} checkout -- .`), edit only files under eyecite/,
  - run the full suite: `cd {wt} && /venv/bin/python -m pytest -q -p no:cacheprovider --timeout=900 tests` (must be 50 passed),
  - save `git -C {wt} diff > {out}/patchN.diff`,
  - write {out}/notesN.md: the commit message you would write, what behaviour changes, and -- property by property, one line each for the properties the change could plausibly touch -- why the property still holds for all inputs. Be self-critical: if you find that a property would break for some rare input, fix the commit or choose another one. Where cheap, test your argument with a small script (do not save it).
  - restore the clean tree.

Make the three commits different in kind and touch real logic (not only comments/docstrings). Prefer changes near the code that the properties talk about (extraction helpers, tokenizers, resolution, annotation, cleaning, models), because that is where a careless change would break a property and a careful one does not.

Never use `git stash`. Python: /venv/bin/python. No network. Leave the worktree clean. In your final answer list the three commits (one line each) and confirm the suite result for each.
"""

THEMES = {
    "a": "realistic maintenance commits rather than pure reshuffling -- e.g. (i) replace a hand-written helper by an equivalent standard-library function (itertools, functools, operator, collections, dataclasses, string, textwrap, unicodedata-free ones) or vice versa; (ii) add an optional keyword parameter with a default that preserves today's behaviour exactly and thread it through one call; (iii) add input validation/logging/debug output that cannot trigger on valid inputs of the documented types; (iv) micro-optimisations: hoisting invariant computations out of loops, pre-compiling a regex at module level, caching a pure function of immutable arguments with functools.lru_cache, binding attributes to locals, replacing repeated list concatenation by a single join; (v) defensive copies; (vi) type-annotation tightening with typing.cast / assert isinstance on values that always have that type.",
    "b": "code motion across functions and modules -- e.g. move a private helper to another module of the package (updating imports), turn a nested function into a module-level one or a staticmethod (or back), split a long function into two or three helpers that pass state through return values or a small NamedTuple/dataclass, merge two helpers, convert a loop with flags into early returns inside a helper, replace an if/elif chain by a dispatch table of callables, introduce a generator that yields what a loop used to append, replace tuple-unpacking by attribute access on a NamedTuple.",
}

MODULES = {
    "annotate": "eyecite/annotate.py (and eyecite/utils.py where it serves annotate)",
    "find": "eyecite/find.py",
    "helpers": "eyecite/helpers.py",
    "models": "eyecite/models.py",
    "resolve": "eyecite/resolve.py",
    "tokenizers": "eyecite/tokenizers.py",
    "clean": "eyecite/clean.py and eyecite/regexes.py",
    "utils": "eyecite/utils.py and eyecite/regexes.py",
}


def sh(*a):
    subprocess.run(a, check=True)


def main():
    root = Path(sys.argv[1])
    kind = sys.argv[2]
    root.mkdir(parents=True, exist_ok=True)
    props = {json.loads(l)["id"]: json.loads(l) for l in (V / "properties.jsonl").read_text().splitlines() if l.strip()}
    if kind == "breaking":
        ids = sys.argv[3:] or [p for p in props if p != "C05"]
        for pid in ids:
            p = props[pid]
            wt, out = root / pid, root / f"{pid}-out"
            sh("git", "-C", "/repo", "worktree", "add", "-q", "--detach", str(wt), "HEAD")
            out.mkdir(exist_ok=True)
            taken = []
            for d in sorted((V / "seeded").glob(f"{pid}-*")):
                nf = d / "notes.md"
                if nf.exists():
                    txt = " ".join(x.strip() for x in nf.read_text().splitlines() if x.strip() and not x.startswith("#"))
                    taken.append(" - " + txt[:330])
            q = p["quantifier"]
            quant = q.get("text", "") if isinstance(q, dict) else str(q)
            (root / f"{pid}.prompt").write_text(BREAK.format(wt=wt, root=root, out=out, pid=pid, title=p["title"], statement=p["statement"], quant=quant,
                                                              taken="\n".join(taken) or " (none)"))
    elif kind == "feature":
        mods = sys.argv[3:] or list(MODULES)
        plist = "\n".join(f" - {pid}: {p['title']}. {p['statement']}" for pid, p in props.items())
        for m in mods:
            wt, out = root / f"F-{m}", root / f"F-{m}-out"
            sh("git", "-C", "/repo", "worktree", "add", "-q", "--detach", str(wt), "HEAD")
            out.mkdir(exist_ok=True)
            txt = FEATURE.format(wt=wt, root=root, out=out, files=MODULES[m], props=plist)
            import os as _os
            focus = _os.environ.get("FOCUS")
            if focus:
                txt = txt.replace("Make the three commits different in kind", focus + "\n\nMake the three commits different in kind")
            (root / f"F-{m}.prompt").write_text(txt)
    else:
        theme = sys.argv[3]
        mods = sys.argv[4:] or list(MODULES)
        for m in mods:
            wt, out = root / f"B{theme}-{m}", root / f"B{theme}-{m}-out"
            sh("git", "-C", "/repo", "worktree", "add", "-q", "--detach", str(wt), "HEAD")
            out.mkdir(exist_ok=True)
            (root / f"B{theme}-{m}.prompt").write_text(BENIGN.format(wt=wt, root=root, out=out, files=MODULES[m], theme=THEMES[theme]))
    print("prepared", root)


if __name__ == "__main__":
    main()
